//go:build verif

// Contracts for package ctrlflow, read by /verif/bin/govc. Comments only.
package ctrlflow

//@ func generateKeys
//@   property C11
//@   requires 0 <= count
//@   assigns nothing
//@   ensures @count: len(r0) == count
//@   ensures @non-zero-and-not-blacklisted: forall i int :: 0 <= i && i < len(r0) ==> r0[i] != 0 && (forall j int :: 0 <= j && j < len(blacklistedKeys) ==> r0[i] != blacklistedKeys[j])
//@   ensures @pairwise-distinct: forall i, j int :: 0 <= i && i < j && j < len(r0) ==> r0[i] != r0[j]
//@   loop 0
//@     invariant forall j int :: 0 <= j && j < _i ==> m[blacklistedKeys[j]]
//@   loop 1
//@     invariant len(arr) <= count
//@     invariant forall j int :: 0 <= j && j < len(blacklistedKeys) ==> m[blacklistedKeys[j]]
//@     invariant forall i int :: 0 <= i && i < len(arr) ==> arr[i] != 0 && m[arr[i]]
//@     invariant forall i int :: 0 <= i && i < len(arr) ==> (forall j int :: 0 <= j && j < len(blacklistedKeys) ==> arr[i] != blacklistedKeys[j])
//@     invariant forall i, j int :: 0 <= i && i < j && j < len(arr) ==> arr[i] != arr[j]
//@ end

//@ func randomAlwaysFalseCond
//@   property C11
//@   fact @goconstant-eq-neq-exclusive: forall a, b ref :: constant.Compare(a, token.EQL, b) != constant.Compare(a, token.NEQ, b)
//@   ensures @chosen-comparison-is-false: r0 != nil && r2 != nil && !constant.Compare(r0.Value, r1, r2.Value)
//@   loop 0
//@     invariant forall k int :: 0 <= k && k < len(candidates) ==> !constant.Compare(val1, candidates[k], val2)
//@     invariant _i >= 1 && !constant.Compare(val1, token.EQL, val2) ==> len(candidates) >= 1
//@     invariant _i >= 2 && !constant.Compare(val1, token.NEQ, val2) ==> len(candidates) >= 1
//@ end

//@ func setBlockParent
//@   property C11
//@   trusted sets the unexported field parent of one basic block through reflect and unsafe; assumed to write nothing else
//@   assigns nothing
//@ end

//@ func setBlock
//@   property C11
//@   trusted sets the unexported field block of one instruction through reflect and unsafe; assumed to write nothing else
//@   assigns nothing
//@ end

//@ func applySplitting
//@   property C11
//@   requires ssaFunc != nil
//@   spec ssa.smt2
//@   requires @phis-lead-their-block: forall b *ssa.BasicBlock :: forall j int :: 0 <= j && j < len(b.Instrs) ==> (dyntypeis(b.Instrs[j], *ssa.Phi) <==> j < spec.PhiCount(b))
//@   requires forall b *ssa.BasicBlock :: spec.PhiCount(b) >= 0
//@   ensures @phis-stay-with-their-predecessors: r0 ==> forall k int :: 1 <= k && k < len(newBlock.Instrs) ==> !dyntypeis(newBlock.Instrs[k], *ssa.Phi)
//@   ensures @second-half-does-not-start-with-a-phi: r0 ==> !dyntypeis(secondPart[0], *ssa.Phi)
//@   ensures @first-half-jumps-only-to-the-second-half: r0 ==> len(targetBlock.Succs) == 1 && targetBlock.Succs[0] == newBlock
//@   ensures @second-half-is-registered-last: r0 ==> len(ssaFunc.Blocks) == old(len(ssaFunc.Blocks)) + 1 && ssaFunc.Blocks[len(ssaFunc.Blocks)-1] == newBlock
//@   loop 1
//@     invariant forall k int :: 0 <= k && k < _i ==> dyntypeis(targetBlock.Instrs[k], *ssa.Phi)
//@     invariant minSplitIdx == ite(_i == 0, 1, _i)
//@     invariant _i <= spec.PhiCount(targetBlock)
//@   loop 3
//@     invariant @predecessor-lists-of-the-original-successors-are-rewritten: ref(targetBlock.Succs) == ref(newBlock.Succs) && off(targetBlock.Succs) == off(newBlock.Succs) && len(targetBlock.Succs) == len(newBlock.Succs)
//@ end

//@ func addJunkBlocks
//@   property C11
//@   requires ssaFunc != nil && count >= 0
//@   loop 0
//@     invariant forall k int :: 0 <= k && k < len(candidates) ==> candidates[k] != nil && len(candidates[k].Succs) > 0
//@   loop 1
//@     invariant len(candidates) > 0
//@   unclaimed (*math/rand.Rand).Intn/requires because needs "every candidate block has a successor" preserved across in-place graph mutation (separation of the candidate list from the blocks' successor arrays); outside what this generator discharges
//@ end

//@ func addTrashBlockMarkers
//@   property C11
//@   requires ssaFunc != nil && count >= 0
//@   loop 0
//@     invariant forall k int :: 0 <= k && k < len(candidates) ==> candidates[k] != nil && len(candidates[k].Succs) > 0
//@   loop 1
//@     invariant len(candidates) > 0
//@   unclaimed (*math/rand.Rand).Intn/requires because needs "every candidate block has a successor" preserved across in-place graph mutation (separation of the candidate list from the blocks' successor arrays); outside what this generator discharges
//@ end
