//go:build verif

// Contracts for package ctrlflow, read by /verif/bin/govc. Comments only.
package ctrlflow

//@ func generateKeys
//@   property C11
//@   requires 0 <= count
//@   assigns nothing
//@   ensures @count: len(r0) == count
//@   ensures @non-zero-and-not-blacklisted: forall i int :: 0 <= i && i < len(r0) ==> r0[i] != 0 && (forall j int :: 0 <= j && j < len(blacklistedKeys) ==> r0[i] != blacklistedKeys[j])
//@   ensures @pairwise-distinct: forall i, j int :: 0 <= i && i < j && j < len(r0) ==> r0[i] != r0[j]
//@   loop 0
//@     invariant forall j int :: 0 <= j && j < _i ==> m[blacklistedKeys[j]]
//@   loop 1
//@     invariant len(arr) <= count
//@     invariant forall j int :: 0 <= j && j < len(blacklistedKeys) ==> m[blacklistedKeys[j]]
//@     invariant forall i int :: 0 <= i && i < len(arr) ==> arr[i] != 0 && m[arr[i]]
//@     invariant forall i int :: 0 <= i && i < len(arr) ==> (forall j int :: 0 <= j && j < len(blacklistedKeys) ==> arr[i] != blacklistedKeys[j])
//@     invariant forall i, j int :: 0 <= i && i < j && j < len(arr) ==> arr[i] != arr[j]
//@ end

//@ func randomAlwaysFalseCond
//@   property C11
//@   fact @goconstant-eq-neq-exclusive: forall a, b ref :: constant.Compare(a, token.EQL, b) != constant.Compare(a, token.NEQ, b)
//@   ensures @chosen-comparison-is-false: r0 != nil && r2 != nil && !constant.Compare(r0.Value, r1, r2.Value)
//@   loop 0
//@     invariant forall k int :: 0 <= k && k < len(candidates) ==> !constant.Compare(val1, candidates[k], val2)
//@     invariant _i >= 1 && !constant.Compare(val1, token.EQL, val2) ==> len(candidates) >= 1
//@     invariant _i >= 2 && !constant.Compare(val1, token.NEQ, val2) ==> len(candidates) >= 1
//@ end

//@ func setBlockParent
//@   property C11
//@   trusted sets the unexported field parent of one basic block through reflect and unsafe; assumed to write nothing else
//@   assigns nothing
//@ end

//@ func setBlock
//@   property C11
//@   trusted sets the unexported field block of one instruction through reflect and unsafe; assumed to write nothing else
//@   assigns nothing
//@ end

//@ func applySplitting
//@   property C11
//@   requires ssaFunc != nil
//@   spec ssa.smt2
//@   requires @phis-lead-their-block: forall b *ssa.BasicBlock :: forall j int :: 0 <= j && j < len(b.Instrs) ==> (dyntypeis(b.Instrs[j], *ssa.Phi) <==> j < spec.PhiCount(b))
//@   requires forall b *ssa.BasicBlock :: spec.PhiCount(b) >= 0
//@   ensures @phis-stay-with-their-predecessors: r0 ==> forall k int :: 1 <= k && k < len(newBlock.Instrs) ==> !dyntypeis(newBlock.Instrs[k], *ssa.Phi)
//@   ensures @second-half-does-not-start-with-a-phi: r0 ==> !dyntypeis(secondPart[0], *ssa.Phi)
//@   ensures @first-half-jumps-only-to-the-second-half: r0 ==> len(targetBlock.Succs) == 1 && targetBlock.Succs[0] == newBlock
//@   ensures @second-half-is-registered-last: r0 ==> len(ssaFunc.Blocks) == old(len(ssaFunc.Blocks)) + 1 && ssaFunc.Blocks[len(ssaFunc.Blocks)-1] == newBlock
//@   loop 1
//@     invariant forall k int :: 0 <= k && k < _i ==> dyntypeis(targetBlock.Instrs[k], *ssa.Phi)
//@     invariant minSplitIdx == ite(_i == 0, 1, _i)
//@     invariant _i <= spec.PhiCount(targetBlock)
//@   loop 3
//@     invariant @predecessor-lists-of-the-original-successors-are-rewritten: ref(targetBlock.Succs) == ref(newBlock.Succs) && off(targetBlock.Succs) == off(newBlock.Succs) && len(targetBlock.Succs) == len(newBlock.Succs)
//@ end

//@ func addJunkBlocks
//@   property C11
//@   requires ssaFunc != nil && count >= 0
//@   loop 0
//@     invariant forall k int :: 0 <= k && k < len(candidates) ==> candidates[k] != nil && len(candidates[k].Succs) > 0
//@   loop 1
//@     invariant len(candidates) > 0
//@   unclaimed (*math/rand.Rand).Intn/requires because needs "every candidate block has a successor" preserved across in-place graph mutation (separation of the candidate list from the blocks' successor arrays); outside what this generator discharges
//@ end

//@ func addTrashBlockMarkers
//@   property C11
//@   requires ssaFunc != nil && count >= 0
//@   loop 0
//@     invariant forall k int :: 0 <= k && k < len(candidates) ==> candidates[k] != nil && len(candidates[k].Succs) > 0
//@   loop 1
//@     invariant len(candidates) > 0
//@   unclaimed (*math/rand.Rand).Intn/requires because needs "every candidate block has a successor" preserved across in-place graph mutation (separation of the candidate list from the blocks' successor arrays); outside what this generator discharges
//@ end

// ---- C11: the dispatcher built by control-flow flattening ----
// Every jump and branch is redirected to a fake block that enters the dispatcher; the dispatcher's
// phi receives, on the edge from fake block k, the constant that the k-th comparison tests, and
// the k-th comparison's true branch is the real target of fake block k. Each iteration is proved
// to build its own link correctly (claims about element _i-1); that later iterations leave earlier
// links alone is not proved (it needs separation of blocks allocated in different iterations); for the
// same reason the link "false branch of comparison k-1 is comparison k" is not claimed: it is written
// into the successor list of a block from the previous iteration, and nothing separates that list
// from the other lists read back from memory.

//@ func setType
//@   property C11
//@   trusted sets the unexported field typ of one instruction through reflect and unsafe; assumed to write nothing else
//@   assigns nothing
//@ end

//@ ghost mkVal map[ref]int

//@ hookset dispatcher
//@ hook after mvdan.cc/garble/internal/ctrlflow.makeSsaInt(v) (r)
//@   mkVal[r] = v
//@ end

//@ func makeSsaInt
//@   property C11
//@   assigns nothing
//@   ensures @constant-carries-the-value: r0 != nil && r0.Value == constant.MakeInt64(int64(i))
//@ end

//@ hookset dispatcher
//@ hook before mvdan.cc/garble/internal/ctrlflow.makeSsaInt(v)
//@   assert("phi-edge-k-belongs-to-fake-block-k", len(entryBlock.Preds) == i + 1 && entryBlock.Preds[i] == m.Fake)
//@   assert("selector-values-are-never-zero-and-follow-the-permutation", v == phiIdxs[i])
//@ end

//@ func applyFlattening
//@   property C11
//@   hooks dispatcher
//@   requires ssaFunc != nil
//@   skip safety
//@   maxpaths 4000
//@   ensures @small-functions-are-left-alone: old(len(ssaFunc.Blocks)) < 3 ==> len(r0) == 0 && ref(ssaFunc.Blocks) == old(ref(ssaFunc.Blocks)) && len(ssaFunc.Blocks) == old(len(ssaFunc.Blocks))
//@   ensures @dispatcher-entry-comes-first: old(len(ssaFunc.Blocks)) >= 3 ==> len(ssaFunc.Blocks) >= 1 && ssaFunc.Blocks[0] == entryBlock
//@   ensures @phis-of-the-original-blocks-keep-their-edges: forall p *ssa.Phi :: p != phiInstr ==> ref(p.Edges) == old(ref(p.Edges)) && len(p.Edges) == old(len(p.Edges))
//@   loop 0
//@     invariant @redirected-edges-enter-the-dispatcher: len(blocksMapping) >= 1 ==> blocksMapping[len(blocksMapping)-1].Fake != nil && len(blocksMapping[len(blocksMapping)-1].Fake.Succs) == 1 && blocksMapping[len(blocksMapping)-1].Fake.Succs[0] == entryBlock
//@     invariant len(entryBlock.Preds) == 0 && len(phiInstr.Edges) == 0 && len(entryBlock.Instrs) == 1 && entryBlock.Instrs[0] == phiInstr
//@   loop 1
//@     invariant len(entryBlock.Preds) == 0 && len(phiInstr.Edges) == 0 && len(entryBlock.Instrs) == 1 && entryBlock.Instrs[0] == phiInstr
//@     invariant @selector-zero-is-reserved-for-the-real-entry: forall k int :: 0 <= k && k < len(phiIdxs) ==> phiIdxs[k] >= ite(k < _i, 1, 0)
//@   loop 2
//@     invariant @selector-zero-is-reserved-for-the-real-entry: forall k int :: 0 <= k && k < len(phiIdxs) ==> phiIdxs[k] >= 1
//@     invariant @phis-of-the-original-blocks-keep-their-edges: forall p *ssa.Phi :: p != phiInstr ==> ref(p.Edges) == old(ref(p.Edges)) && len(p.Edges) == old(len(p.Edges))
//@     invariant @one-entry-per-redirected-edge: len(entriesBlocks) == _i && len(info) == _i && len(phiInstr.Edges) == _i && len(entryBlock.Preds) == _i
//@     invariant @comparison-k-jumps-to-the-real-target-of-edge-k: _i >= 1 ==> entriesBlocks[_i-1] != nil && len(entriesBlocks[_i-1].Succs) == 2 && entriesBlocks[_i-1].Succs[0] == blocksMapping[_i-1].Target
//@     invariant @phi-edge-k-carries-the-value-stored-for-edge-k: _i >= 1 ==> phiInstr.Edges[_i-1] == info[_i-1].StoreVar
//@     invariant @comparison-k-tests-the-value-stored-on-edge-k: _i >= 1 ==> mkVal[info[_i-1].StoreVar] == phiIdxs[_i-1] && mkVal[info[_i-1].CompareVar] == phiIdxs[_i-1]
//@     invariant @comparison-k-compares-the-selector-for-equality: _i >= 1 ==> dyntypeis(entriesBlocks[_i-1].Instrs[0], *ssa.BinOp) && entriesBlocks[_i-1].Instrs[0].(*ssa.BinOp).X == phiInstr && entriesBlocks[_i-1].Instrs[0].(*ssa.BinOp).Op == token.EQL && entriesBlocks[_i-1].Instrs[0].(*ssa.BinOp).Y == info[_i-1].CompareVar && dyntypeis(entriesBlocks[_i-1].Instrs[1], *ssa.If) && entriesBlocks[_i-1].Instrs[1].(*ssa.If).Cond == entriesBlocks[_i-1].Instrs[0]
//@     invariant @dispatcher-entry-jumps-to-the-first-comparison: _i == 1 ==> len(entryBlock.Succs) == 1 && entryBlock.Succs[0] == entriesBlocks[0]
//@ end

// ---- C11: xor hardening of the dispatcher keys ----
// Every comparison constant becomes the literal k ^ globalKey and every stored constant the
// expression (localKey ^ k), where localKey is initialised from the global that the emitted init code
// computes as firstKey ^ secondKey[0] ^ ... — the same fold the generator runs here. k is fresh, non-zero,
// pairwise distinct and different from globalKey, so the stored value is never 0 (0 is reserved for
// the real entry block) and two edges never share a value.

//@ ghost iden map[ref]int

//@ hookset xorhard
//@ hook after mvdan.cc/garble/internal/asthelper.IntLit(v) (r)
//@   iden[r] = v
//@ hook before mvdan.cc/garble/internal/asthelper.DataToArray(d)
//@   assert("decoder-is-given-the-second-key-the-generator-folded", ref(d) == ref(secondKey) && len(d) == len(secondKey))
//@ hook before mvdan.cc/garble/internal/ctrlflow.generateKeys(count, bl, r)
//@   assert("one-key-per-dispatcher-edge-and-the-global-key-is-excluded", count == len(dispatcher) && len(bl) == 1 && bl[0] == globalKey)
//@ end

//@ func getRandomName
//@   property C11
//@   trusted draws a name from the seeded generator
//@   assigns nothing
//@ end

//@ func (xorHardening).Apply
//@   property C11
//@   intmode bv
//@   hooks xorhard
//@   skip safety call-requires
//@   requires forall k int :: 0 <= k && k < len(dispatcher) ==> dispatcher[k].CompareVar != nil && dispatcher[k].StoreVar != nil && dispatcher[k].CompareVar != dispatcher[k].StoreVar
//@   ensures @decoder-starts-from-the-first-key-and-folds-the-second-key-with-xor: r0 != nil && dyntypeis(r0, *ast.GenDecl) && r0.(*ast.GenDecl).Tok == token.VAR && r0.(*ast.GenDecl).Specs[0].(*ast.ValueSpec).Names[0].Name == globalKeyName && dyntypeis(r0.(*ast.GenDecl).Specs[0].(*ast.ValueSpec).Values[0], *ast.CallExpr) && dyntypeis(r0.(*ast.GenDecl).Specs[0].(*ast.ValueSpec).Values[0].(*ast.CallExpr).Fun, *ast.FuncLit) && len(r0.(*ast.GenDecl).Specs[0].(*ast.ValueSpec).Values[0].(*ast.CallExpr).Fun.(*ast.FuncLit).Body.List) == 3 && iden[r0.(*ast.GenDecl).Specs[0].(*ast.ValueSpec).Values[0].(*ast.CallExpr).Fun.(*ast.FuncLit).Body.List[0].(*ast.AssignStmt).Rhs[0]] == firstKey && dyntypeis(r0.(*ast.GenDecl).Specs[0].(*ast.ValueSpec).Values[0].(*ast.CallExpr).Fun.(*ast.FuncLit).Body.List[1], *ast.RangeStmt) && r0.(*ast.GenDecl).Specs[0].(*ast.ValueSpec).Values[0].(*ast.CallExpr).Fun.(*ast.FuncLit).Body.List[1].(*ast.RangeStmt).X.(*ast.Ident).Name == "secondKey" && r0.(*ast.GenDecl).Specs[0].(*ast.ValueSpec).Values[0].(*ast.CallExpr).Fun.(*ast.FuncLit).Body.List[1].(*ast.RangeStmt).Body.List[0].(*ast.AssignStmt).Tok == token.XOR_ASSIGN
//@   ensures @local-key-is-initialised-from-the-decoded-global: r1 != nil && dyntypeis(r1, *ast.AssignStmt) && r1.(*ast.AssignStmt).Tok == token.DEFINE && r1.(*ast.AssignStmt).Lhs[0].(*ast.Ident).Name == localKeyName && r1.(*ast.AssignStmt).Rhs[0].(*ast.Ident).Name == globalKeyName
//@   loop 1
//@     invariant @comparison-constant-is-the-key-xor-the-global-key: _i >= 1 ==> iden[ssaRemap[dispatcher[_i-1].CompareVar]] == newKeys[_i-1] ^ globalKey
//@     invariant @stored-value-is-local-key-xor-the-key: _i >= 1 ==> dyntypeis(ssaRemap[dispatcher[_i-1].StoreVar], *ast.ParenExpr) && dyntypeis(ssaRemap[dispatcher[_i-1].StoreVar].(*ast.ParenExpr).X, *ast.BinaryExpr) && ssaRemap[dispatcher[_i-1].StoreVar].(*ast.ParenExpr).X.(*ast.BinaryExpr).Op == token.XOR && ssaRemap[dispatcher[_i-1].StoreVar].(*ast.ParenExpr).X.(*ast.BinaryExpr).X.(*ast.Ident).Name == localKeyName && iden[ssaRemap[dispatcher[_i-1].StoreVar].(*ast.ParenExpr).X.(*ast.BinaryExpr).Y] == newKeys[_i-1]
//@ end

// ---- C11: delegate-table hardening of the dispatcher keys ----
// Edge i compares against the literal k_i and stores table[d_i](k_i ^ dk_i), where delegate d returns
// its argument xor (int(key[delegateKeyIdxs[d]]) ^ delegateLocalKeys[d]) and dk_i is exactly that value
// for d = d_i: the call yields k_i. Each of the three loops is proved to set up its own element.

//@ hookset delegatehard
//@ hook after mvdan.cc/garble/internal/asthelper.IntLit(v) (r)
//@   iden[r] = v
//@ hook before mvdan.cc/garble/internal/asthelper.DataToArray(d)
//@   assert("the-table-is-built-from-the-key-bytes-the-generator-used", ref(d) == ref(key) && len(d) == len(key))
//@ end

//@ func (delegateTableHardening).Apply
//@   property C11
//@   intmode bv
//@   hooks delegatehard
//@   skip safety call-requires
//@   requires len(dispatcher) >= 1 && forall k int :: 0 <= k && k < len(dispatcher) ==> dispatcher[k].CompareVar != nil && dispatcher[k].StoreVar != nil && dispatcher[k].CompareVar != dispatcher[k].StoreVar
//@   ensures @no-extra-statement-is-needed: isnil(r1)
//@   loop 0
//@     invariant @each-edge-picks-a-delegate-that-exists-and-records-its-key: _i >= 1 ==> 0 <= delegateIndexes[_i-1] && delegateIndexes[_i-1] < delegateCount && delegateKeys[_i-1] == int(key[delegateKeyIdxs[delegateIndexes[_i-1]]]) ^ delegateLocalKeys[delegateIndexes[_i-1]]
//@     invariant len(delegateIndexes) == len(dispatcher) && len(delegateKeys) == len(dispatcher)
//@   loop 1
//@     invariant @comparison-constant-is-the-key: _i >= 1 ==> iden[ssaRemap[dispatcher[_i-1].CompareVar]] == newKeys[_i-1]
//@     invariant @stored-value-is-the-delegate-call-on-the-key-xor-the-delegate-key: _i >= 1 ==> dyntypeis(ssaRemap[dispatcher[_i-1].StoreVar], *ast.CallExpr) && dyntypeis(ssaRemap[dispatcher[_i-1].StoreVar].(*ast.CallExpr).Fun, *ast.IndexExpr) && ssaRemap[dispatcher[_i-1].StoreVar].(*ast.CallExpr).Fun.(*ast.IndexExpr).X.(*ast.Ident).Name == globalTableName && iden[ssaRemap[dispatcher[_i-1].StoreVar].(*ast.CallExpr).Fun.(*ast.IndexExpr).Index] == delegateIndexes[_i-1] && len(ssaRemap[dispatcher[_i-1].StoreVar].(*ast.CallExpr).Args) == 1 && iden[ssaRemap[dispatcher[_i-1].StoreVar].(*ast.CallExpr).Args[0]] == newKeys[_i-1] ^ delegateKeys[_i-1]
//@   loop 2
//@     invariant @delegate-d-undoes-the-key-of-delegate-d: _i >= 1 ==> dyntypeis(delegatesAst[_i-1], *ast.FuncLit) && len(delegatesAst[_i-1].(*ast.FuncLit).Body.List) == 1 && dyntypeis(delegatesAst[_i-1].(*ast.FuncLit).Body.List[0].(*ast.ReturnStmt).Results[0], *ast.BinaryExpr) && delegatesAst[_i-1].(*ast.FuncLit).Body.List[0].(*ast.ReturnStmt).Results[0].(*ast.BinaryExpr).Op == token.XOR && delegatesAst[_i-1].(*ast.FuncLit).Body.List[0].(*ast.ReturnStmt).Results[0].(*ast.BinaryExpr).X.(*ast.Ident).Name == "i" && delegatesAst[_i-1].(*ast.FuncLit).Body.List[0].(*ast.ReturnStmt).Results[0].(*ast.BinaryExpr).Y.(*ast.BinaryExpr).Op == token.XOR && iden[delegatesAst[_i-1].(*ast.FuncLit).Body.List[0].(*ast.ReturnStmt).Results[0].(*ast.BinaryExpr).Y.(*ast.BinaryExpr).Y] == delegateLocalKeys[_i-1] && iden[delegatesAst[_i-1].(*ast.FuncLit).Body.List[0].(*ast.ReturnStmt).Results[0].(*ast.BinaryExpr).Y.(*ast.BinaryExpr).X.(*ast.CallExpr).Args[0].(*ast.IndexExpr).Index] == delegateKeyIdxs[_i-1] && delegatesAst[_i-1].(*ast.FuncLit).Body.List[0].(*ast.ReturnStmt).Results[0].(*ast.BinaryExpr).Y.(*ast.BinaryExpr).X.(*ast.CallExpr).Args[0].(*ast.IndexExpr).X.(*ast.Ident).Name == "key"
//@ end
