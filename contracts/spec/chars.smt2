; ASCII classes used by the name contracts (C16). Definitions, not axioms.
(define-fun |spec.IsDigit| ((b Int)) Bool (and (<= 48 b) (<= b 57)))
(define-fun |spec.IsLower| ((b Int)) Bool (and (<= 97 b) (<= b 122)))
(define-fun |spec.IsUpper| ((b Int)) Bool (and (<= 65 b) (<= b 90)))
(define-fun |spec.IsLetter| ((b Int)) Bool (or (|spec.IsLower| b) (|spec.IsUpper| b)))
; identifier characters: letters, digits, underscore
(define-fun |spec.IdentChar| ((b Int)) Bool (or (|spec.IsDigit| b) (|spec.IsLetter| b) (= b 95)))
; RFC 4648 section 5 alphabet: A-Z a-z 0-9 - _
(define-fun |spec.B64URL| ((b Int)) Bool (or (|spec.IdentChar| b) (= b 45)))
(define-fun |spec.B64URLChar| ((v Int)) Int
  (ite (< v 26) (+ 65 v) (ite (< v 52) (+ 97 (- v 26)) (ite (< v 62) (+ 48 (- v 52)) (ite (= v 62) 45 95)))))
; 6-bit group j of the byte sequence a[o..] (RFC 4648 section 4)
(define-fun |spec.B64Sym| ((a (Array Int Int)) (o Int) (n Int) (j Int)) Int
  (let ((k (* 3 (div j 4))) (m (mod j 4)))
    (ite (= m 0) (div (select a (+ o k)) 4)
    (ite (= m 1) (+ (* 16 (mod (select a (+ o k)) 4)) (div (select a (+ o k 1)) 16))
    (ite (= m 2) (+ (* 4 (mod (select a (+ o k 1)) 16)) (div (select a (+ o k 2)) 64))
                 (mod (select a (+ o k 2)) 64))))))
