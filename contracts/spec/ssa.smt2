; the number of phi instructions that lead a basic block (uninterpreted; the
; precondition of applySplitting ties it to the block's instruction list)
(declare-fun |spec.PhiCount| (Int) Int)
