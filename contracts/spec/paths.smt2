; the last element of a path, as an uninterpreted function of the path text
(declare-fun |spec.BaseOf| (Str) Str)
