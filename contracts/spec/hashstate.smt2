; Abstract state of a hash.Hash / io.Writer: the sequence of writes since Reset,
; as a free term algebra (uninterpreted constructors), and SHA-256 of that
; sequence as an uninterpreted function. Nothing is assumed about SHA-256
; except that it is a function and yields 32 bytes.
(declare-fun |spec.HEmpty| () Int)
(declare-fun |spec.HWriteS| (Int Str) Int)
(declare-fun |spec.Sha| (Int) (Array Int Int))
(assert (forall ((h Int) (j Int)) (! (and (<= 0 (select (|spec.Sha| h) j)) (<= (select (|spec.Sha| h) j) 255)) :pattern ((select (|spec.Sha| h) j)))))
(define-fun |spec.ShaByte| ((h Int) (j Int)) Int (select (|spec.Sha| h) j))
; which base64 encoding an *Encoding value is: true for URLEncoding.WithPadding(NoPadding)
(declare-fun |spec.IsURLNoPad| (Int) Bool)
