; What garble's own configuration contributes to a hash or to the toolexec command
; line, written from the README / property statements:
;  * a build hash covers -literals, -tiny, the seed, the control-flow setting and the
;    test-only obfuscator override; it does NOT cover -debug / -debugdir;
;  * the flags handed to toolexec children are -literals, -tiny, -debug, -debugdir, -seed.
(define-fun |spec.BuildFlags| ((h Int) (lit Bool) (tiny Bool) (seedp Bool) (seed Str) (cf Bool) (tobf Str)) Int
  (let ((h1 (ite lit (|spec.HWriteS| h |" -literals"|) h)))
  (let ((h2 (ite tiny (|spec.HWriteS| h1 |" -tiny"|) h1)))
  (let ((h3 (ite seedp (|spec.HWriteS| (|spec.HWriteS| h2 |" -seed="|) seed) h2)))
  (let ((h4 (ite cf (|spec.HWriteS| h3 |" -ctrlflow"|) h3)))
  (ite (not (= tobf str.empty)) (|spec.HWriteS| h4 tobf) h4))))))
(define-fun |spec.ChildFlags| ((h Int) (lit Bool) (tiny Bool) (dbg Bool) (dir Str) (seedp Bool) (seed Str)) Int
  (let ((h1 (ite lit (|spec.HWriteS| h |" -literals"|) h)))
  (let ((h2 (ite tiny (|spec.HWriteS| h1 |" -tiny"|) h1)))
  (let ((h3 (ite dbg (|spec.HWriteS| h2 |" -debug"|) h2)))
  (let ((h4 (ite (not (= dir str.empty)) (|spec.HWriteS| (|spec.HWriteS| h3 |" -debugdir="|) dir) h3)))
  (ite seedp (|spec.HWriteS| (|spec.HWriteS| h4 |" -seed="|) seed) h4))))))
