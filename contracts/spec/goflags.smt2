; How the go command splits a command line (cmd/go/internal/base/flag.go, cmdflag):
; an argument that does not start with '-' ends the flags; "-f=v" and boolean flags
; consume one argument; every other flag consumes two; "--f" is the same flag as "-f".
(declare-fun |strings.Contains$Str$Str| (Str Str) Bool)
; the go command's boolean flags in "-name" form; tied to garble's table by the
; ground obligation table:booleanFlags (extracted from GOROOT on every run)
(declare-fun |spec.GoBool| (Str) Bool)
(define-fun |spec.IsFlag| ((s Str)) Bool (and (>= (slen s) 1) (= (sat s 0) 45)))
(define-fun |spec.Norm| ((s Str)) Str
  (ite (and (>= (slen s) 2) (= (sat s 0) 45) (= (sat s 1) 45)) (ssub s 1 (slen s)) s))
; AXIOM (true of strings, '-' is not '='): dropping one leading '-' of "--x" does not change whether '=' occurs
(assert (forall ((s Str)) (! (=> (and (>= (slen s) 2) (= (sat s 0) 45))
   (= (|strings.Contains$Str$Str| (ssub s 1 (slen s)) |"="|) (|strings.Contains$Str$Str| s |"="|))) :pattern ((ssub s 1 (slen s))))))
(define-fun |spec.OneArg| ((s Str)) Bool
  (or (|strings.Contains$Str$Str| s |"="|) (|spec.GoBool| (|spec.Norm| s))))
(define-fun-rec |spec.GoSplit| ((a (Array Int Str)) (o Int) (n Int) (i Int)) Int
  (ite (or (< i 0) (>= i n)) n
    (ite (not (|spec.IsFlag| (select a (+ o i)))) i
      (ite (|spec.OneArg| (select a (+ o i)))
           (|spec.GoSplit| a o n (+ i 1))
           (|spec.GoSplit| a o n (+ i 2))))))
; position p is the name of a flag (not a flag's value) in the go command's parse
(define-fun-rec |spec.NamePos| ((a (Array Int Str)) (o Int) (n Int) (i Int) (p Int)) Bool
  (ite (or (< i 0) (>= i n) (> i p)) false
    (ite (= i p) true
      (ite (|spec.OneArg| (select a (+ o i)))
           (|spec.NamePos| a o n (+ i 1) p)
           (|spec.NamePos| a o n (+ i 2) p)))))
; backward characterisation of flag-name positions: position p is a flag name iff
; p is 0 or the previous name position consumed exactly the arguments up to p
(define-fun-rec |spec.IsNamePos| ((a (Array Int Str)) (o Int) (n Int) (p Int)) Bool
  (ite (<= p 0) (= p 0)
    (or (and (|spec.IsNamePos| a o n (- p 1)) (|spec.OneArg| (select a (+ o (- p 1)))))
        (and (>= p 2) (|spec.IsNamePos| a o n (- p 2)) (not (|spec.OneArg| (select a (+ o (- p 2)))))))))
