; the largest value each index type of the emitted swap table can hold
(define-fun |spec.MaxOf| ((t Str)) Int
  (ite (= t |"byte"|) 255 (ite (= t |"uint16"|) 65535 (ite (= t |"uint32"|) 4294967295 (ite (= t |"uint64"|) 18446744073709551615 (- 1))))))
(define-fun |spec.IsOpI| ((t Int)) Bool (or (= t 19) (= t 12) (= t 13)))
