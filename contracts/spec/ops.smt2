; go/token operator codes: ADD=12 SUB=13 XOR=19 (checked against go/token by the
; ground obligation ground:token-codes). Byte arithmetic is 8-bit bit-vector arithmetic.
(define-fun |spec.Eval| ((t (_ BitVec 64)) (x (_ BitVec 8)) (y (_ BitVec 8))) (_ BitVec 8)
  (ite (= t (_ bv19 64)) (bvxor x y) (ite (= t (_ bv12 64)) (bvadd x y) (bvsub x y))))
; the operator that undoes t when applied to (encoded value, same key)
(define-fun |spec.Rev| ((t (_ BitVec 64))) (_ BitVec 64)
  (ite (= t (_ bv19 64)) (_ bv19 64) (ite (= t (_ bv12 64)) (_ bv13 64) (_ bv12 64))))
(define-fun |spec.IsOp| ((t (_ BitVec 64))) Bool (or (= t (_ bv19 64)) (= t (_ bv12 64)) (= t (_ bv13 64))))
