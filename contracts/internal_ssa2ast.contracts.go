//go:build verif

// Contracts for package ssa2ast, read by /verif/bin/govc. Comments only.
package ssa2ast

//@ func (*funcConverter).convert
//@   property C11
//@   trusted the SSA to AST translation as a whole is outside this generator; only the must_read frame below is an obligation
//@   must_read ssa.Function: Signature, FreeVars, Blocks, AnonFuncs, Recover
//@   must_read ssa.BasicBlock: Instrs, Succs, Index
//@   must_read ssa.Call: Call
//@   must_read ssa.CallCommon: Value, Method, Args
//@   must_read ssa.Lookup: X, Index, CommaOk
//@   must_read ssa.TypeAssert: X, AssertedType, CommaOk
//@   must_read ssa.Slice: X, Low, High, Max
//@   must_read ssa.UnOp: Op, X, CommaOk
//@   must_read ssa.Next: Iter, IsString
//@   must_read ssa.Range: X
//@   must_read ssa.Select: States, Blocking
//@   must_read ssa.Defer: Call
//@   must_read ssa.Go: Call
//@   must_read ssa.MakeClosure: Fn, Bindings
//@   must_read ssa.If: Cond
//@   must_read ssa.Return: Results
//@   must_read ssa.Store: Addr, Val
//@   must_read ssa.Phi: Edges
//@ end
