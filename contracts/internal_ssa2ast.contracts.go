//go:build verif

// Contracts for package ssa2ast, read by /verif/bin/govc. Comments only.
package ssa2ast

//@ func (*funcConverter).convert
//@   property C11
//@   trusted the SSA to AST translation as a whole is outside this generator; only the must_read frame below is an obligation
//@   must_read ssa.Function: Signature, FreeVars, Blocks, AnonFuncs, Recover
//@   must_read ssa.BasicBlock: Instrs, Succs, Index
//@   must_read ssa.Call: Call
//@   must_read ssa.CallCommon: Value, Method, Args
//@   must_read ssa.Lookup: X, Index, CommaOk
//@   must_read ssa.TypeAssert: X, AssertedType, CommaOk
//@   must_read ssa.Slice: X, Low, High, Max
//@   must_read ssa.UnOp: Op, X, CommaOk
//@   must_read ssa.Next: Iter, IsString
//@   must_read ssa.Range: X
//@   must_read ssa.Select: States, Blocking
//@   must_read ssa.Defer: Call
//@   must_read ssa.Go: Call
//@   must_read ssa.MakeClosure: Fn, Bindings
//@   must_read ssa.If: Cond
//@   must_read ssa.Return: Results
//@   must_read ssa.Store: Addr, Val
//@   must_read ssa.Phi: Edges
//@ end

// ---- C11: calls are translated with their variadic spread ----
// go/ssa always packs variadic arguments into one slice value, so the emitted call must end in "..."
// whenever the callee's signature (function, closure, builtin or interface method) is variadic. (The
// converse, no "..." on other calls, would need the frame of a call through a function-valued field;
// a spurious "..." does not compile, so it cannot change behaviour silently.)

//@ func (*funcConverter).convertCall
//@   property C11
//@   skip safety call-requires
//@   ensures @variadic-calls-spread-their-packed-argument: r1 == nil ==> r0 != nil && (callCommon.Signature().Variadic() ==> r0.Ellipsis != 0)
//@   ensures @error-yields-no-call: r1 != nil ==> r0 == nil
//@ end

//@ func (*funcConverter).convertSsaValue
//@   property C11
//@   trusted translates one SSA value into an expression; creates syntax nodes and changes only the converter's own bookkeeping (never a node it did not create)
//@   assigns pointee(fc)
//@ end

//@ func (*funcConverter).getAnonFunctionName
//@   property C11
//@   trusted looks the function up among the converter's anonymous functions
//@   assigns pointee(fc)
//@ end

//@ func (*funcConverter).getThunkMethodCall
//@   property C11
//@   trusted builds the method expression for a $thunk wrapper
//@   assigns pointee(fc)
//@ end

//@ func (*TypeConverter).Convert
//@   property C11
//@   trusted translates a go/types type into a type expression; creates syntax nodes only
//@   assigns pointee(tc)
//@ end
