//go:build verif

// Contracts for package main, read by /verif/bin/govc. This file contains only
// comments; with the build tag off it is not part of any build.
package main

//@ ghost wr map[ref]int

//@ hookset hasher
//@ hook after (hash.Hash).Reset(h)
//@   wr[h] = spec.HEmpty()
//@ hook after (hash.Hash).Write(h, p) (n, err)
//@   wr[h] = spec.HWriteS(wr[h], str(p))
//@ hook after io.WriteString(w, s) (n, err)
//@   wr[w] = spec.HWriteS(wr[w], s)
//@ end

//@ func hashWithCustomSalt
//@   property C16 C12 C03 C01
//@   spec chars.smt2 hashstate.smt2
//@   hooks hasher
//@   requires len(salt) > 0 && name != ""
//@   fact @init-nameBase64: spec.IsURLNoPad(nameBase64)
//@   assigns sumBuffer, b64NameBuffer, ghost wr
//@   deterministic @pure-function: in salt, flagSeed.bytes, name
//@   ensures @hash-input: wr[hasher] == spec.HWriteS(spec.HWriteS(spec.HWriteS(spec.HEmpty(), old(str(salt))), old(str(flagSeed.bytes))), name)
//@   ensures @length: 6 <= len(r0) && len(r0) <= 12
//@   ensures @alphabet: forall i int :: 0 <= i && i < len(r0) ==> spec.IdentChar(r0[i])
//@   ensures @first-not-digit: !spec.IsDigit(r0[0])
//@   ensures @export-preserved: token.IsIdentifier(name) ==> (spec.IsUpper(r0[0]) <==> token.IsExported(name))
//@   loop 0
//@     invariant 0 <= i && i <= len(b64Name)
//@     invariant forall j int :: 0 <= j && j < i ==> b64Name[j] != '-'
//@     invariant forall j int :: 0 <= j && j < len(b64Name) ==> spec.B64URL(b64Name[j])
//@     invariant !spec.IsDigit(b64Name[0])
//@     invariant @functional: forall j int :: 0 <= j && j < len(b64Name) ==> b64Name[j] == ite(j < i && entry(b64Name[j]) == '-', 'a', entry(b64Name[j]))
//@ end

//@ func splitFlagsFromArgs
//@   property C20
//@   spec goflags.smt2
//@   fact @table-booleanFlags: forall s string :: booleanFlags[s] == spec.GoBool(s)
//@   assigns nothing
//@   ensures @split-point: len(flags) == spec.GoSplit(all, 0)
//@   ensures @flags-view: len(flags) > 0 ==> ref(flags) == ref(all) && off(flags) == off(all)
//@   ensures @flags-cap: len(flags) < len(all) ==> cap(flags) == len(flags)
//@   ensures @args-view: len(args) == len(all) - len(flags) && (len(args) > 0 ==> ref(args) == ref(all) && off(args) == off(all) + len(flags))
//@   loop 0
//@     invariant 0 <= i && i <= len(all) + 1
//@     invariant spec.GoSplit(all, 0) == spec.GoSplit(all, i)
//@ end

//@ func hasHelpFlag
//@   property C20
//@   assigns nothing
//@   ensures @iff: r0 <==> (exists k int :: 0 <= k && k < len(flags) && (flags[k] == "-h" || flags[k] == "-help" || flags[k] == "--help"))
//@   loop 0
//@     invariant forall j int :: 0 <= j && j < _i ==> !(flags[j] == "-h" || flags[j] == "-help" || flags[j] == "--help")
//@ end

//@ func splitFlagsFromFiles
//@   property C20
//@   assigns nothing
//@   ensures @partition: len(flags) + len(paths) == len(all)
//@   ensures @paths-are-files: forall k int :: 0 <= k && k < len(paths) ==> !strings.HasPrefix(paths[k], "-") && strings.HasSuffix(paths[k], ext)
//@   ensures @last-flag: len(flags) > 0 ==> (strings.HasPrefix(flags[len(flags)-1], "-") || !strings.HasSuffix(flags[len(flags)-1], ext))
//@   ensures @paths-view: len(paths) > 0 ==> ref(paths) == ref(all) && off(paths) == off(all) + len(flags)
//@   ensures @flags-view: len(flags) > 0 ==> ref(flags) == ref(all) && off(flags) == off(all) && cap(flags) == len(flags)
//@   loop 0
//@     invariant -1 <= i && i < len(all)
//@     invariant forall k int :: i < k && k < len(all) ==> !strings.HasPrefix(all[k], "-") && strings.HasSuffix(all[k], ext)
//@ end

//@ ghost fwdName map[int]string

//@ hookset fwdflags
//@ hook after strings.Cut(s, sep) (b, a, f)
//@   assert("flag-name-is-cut-from-the-normalised-argument", s == spec.Norm(flags[i]) && sep == "=")
//@   fwdName[i] = b
//@ end

// Every flag that the go command's parse (spec.IsNamePos, kept in step by the parse-sync invariant)
// reaches as a flag name and that is forwardable is handed on in the go command's own spelling
// (-name), together with its value when the value is a separate argument, in order. isName[p] marks
// the positions the loop treated as flag names; each of them is a name position of the go command's
// parse. (That no name position of the go command's parse is skipped is the other half of parse-sync;
// its quantified form discharges only on cvc5 in about 30 s and is not claimed.)
//@ func filterForwardBuildFlags
//@   property C20
//@   spec goflags.smt2
//@   hooks fwdflags
//@   fact @table-booleanFlags: forall s string :: booleanFlags[s] == spec.GoBool(s)
//@   ghost outAt map[int]int
//@   ghost isName map[int]bool
//@   requires forall p int :: !isName[p]
//@   ensures @forwarded-flags-keep-their-values-in-order: forall p int :: 0 <= p && p < len(flags) && isName[p] && forwardBuildFlags[fwdName[p]] ==> 0 <= outAt[p] && outAt[p] < len(filtered) && filtered[outAt[p]] == spec.Norm(flags[p]) && (!spec.OneArg(flags[p]) && p+1 < len(flags) ==> outAt[p]+1 < len(filtered) && filtered[outAt[p]+1] == flags[p+1])
//@   ensures @forwarded-flags-stay-in-order: forall p, q int :: 0 <= p && p < q && q < len(flags) && isName[p] && isName[q] && forwardBuildFlags[fwdName[p]] ==> outAt[p] < outAt[q]
//@   ensures @every-treated-position-is-a-flag-name-of-the-go-command: forall p int :: isName[p] ==> 0 <= p && p < len(flags) && spec.IsNamePos(flags, p)
//@   ensures @the-first-argument-is-treated-as-a-flag-name: len(flags) > 0 ==> isName[0]
//@   loop 0
//@     iter outAt[i] = len(filtered)
//@     iter isName[i] = true
//@     invariant 0 <= i && i <= len(flags) + 1
//@     invariant @parse-sync: i <= len(flags) ==> spec.IsNamePos(flags, i)
//@     invariant @treated-positions-are-names: forall p int :: isName[p] ==> 0 <= p && p < i && p < len(flags) && spec.IsNamePos(flags, p)
//@     invariant i > 0 ==> isName[0]
//@     invariant @order-so-far: forall p int :: isName[p] && forwardBuildFlags[fwdName[p]] ==> 0 <= outAt[p] && outAt[p] < len(filtered)
//@     invariant @forwarded-names-so-far: forall p int :: isName[p] && forwardBuildFlags[fwdName[p]] ==> filtered[outAt[p]] == spec.Norm(flags[p])
//@     invariant @forwarded-values-so-far: forall p int :: isName[p] && p+1 < len(flags) && forwardBuildFlags[fwdName[p]] && !spec.OneArg(flags[p]) ==> outAt[p]+1 < len(filtered) && filtered[outAt[p]+1] == flags[p+1]
//@     invariant @order-so-far-2: forall p, q int :: p < q && isName[p] && isName[q] && forwardBuildFlags[fwdName[p]] ==> outAt[p] < outAt[q]
//@ end

//@ func flagSetValue
//@   property C20 C02
//@   ensures @len: len(r0) == len(flags) || len(r0) == len(flags) + 1
//@   ensures @append-only-if-absent: len(r0) == len(flags) + 1 ==> r0[len(flags)] == name+"="+value && (forall j int :: 0 <= j && j < len(flags) ==> !strings.HasPrefix(old(flags[j]), name+"=") && old(flags[j]) != name)
//@   ensures @in-place: len(r0) == len(flags) ==> ref(r0) == ref(flags) && off(r0) == off(flags)
//@   ensures @eq-form-replaced: forall p int :: 0 <= p && p < len(flags) && strings.HasPrefix(old(flags[p]), name+"=") && (forall j int :: 0 <= j && j < p ==> !strings.HasPrefix(old(flags[j]), name+"=") && old(flags[j]) != name) ==> r0[p] == name+"="+value
//@   ensures @space-form-replaced: forall p int :: 0 <= p && p+1 < len(flags) && old(flags[p]) == name && !strings.HasPrefix(old(flags[p]), name+"=") && (forall j int :: 0 <= j && j < p ==> !strings.HasPrefix(old(flags[j]), name+"=") && old(flags[j]) != name) ==> r0[p+1] == value
//@   loop 0
//@     invariant forall j int :: 0 <= j && j < _i ==> !strings.HasPrefix(flags[j], name+"=") && flags[j] != name
//@     invariant forall j int :: 0 <= j && j < len(flags) ==> flags[j] == old(flags[j])
//@ end

// ---- C12: salting ----

//@ hookset hasher
//@ hook after fmt.Fprintf(w, format, a0) (n, err)
//@   wr[w] = spec.HWriteS(wr[w], fmt.Sprintf(format, a0))
//@ end

//@ func (*listedPackages).get
//@   pure
//@   trusted lazily decodes and memoises the entry for a path; as a function of (l, path) it is a lookup

//@ func (seedFlag).String
//@   property C12 C06 C13
//@   assigns nothing
//@   deterministic @function-of-the-seed: in f.bytes
//@   ensures @the-whole-seed-is-handed-on: r0 == base64.RawStdEncoding.EncodeToString(f.bytes)
//@ end

//@ func typeutil_hash
//@   pure
//@   trusted wrapper around typeutil_hasher.hash, whose struct case is verified under C15

//@ func appendFlags
//@   property C12 C06
//@   spec hashstate.smt2 garbleflags.smt2
//@   hooks hasher
//@   assigns ghost wr
//@   ensures @build-hash-flags: forBuildHash ==> wr[w] == spec.BuildFlags(old(wr[w]), flagLiterals, flagTiny, len(flagSeed.bytes) > 0, flagSeed.String(), flagControlFlow, literals.TestObfuscator)
//@   ensures @child-flags: !forBuildHash ==> wr[w] == spec.ChildFlags(old(wr[w]), flagLiterals, flagTiny, flagDebug, flagDebugDir, len(flagSeed.bytes) > 0, flagSeed.String())
//@ end

//@ func addGarbleToHash
//@   property C12 C06
//@   spec hashstate.smt2 garbleflags.smt2
//@   hooks hasher
//@   requires sharedCache != nil
//@   may_panic when len(sharedCache.BinaryContentID) == 0
//@   assigns ghost wr
//@   ensures @hash-input: wr[hasher] == spec.BuildFlags(spec.HWriteS(spec.HWriteS(spec.HWriteS(spec.HEmpty(), str(inputHash)), str(sharedCache.BinaryContentID)), fmt.Sprintf(" GOGARBLE=%s", sharedCache.GOGARBLE)), flagLiterals, flagTiny, len(flagSeed.bytes) > 0, flagSeed.String(), flagControlFlow, literals.TestObfuscator)
//@   ensures @sum: forall j int :: 0 <= j && j < 32 ==> r0[j] == spec.ShaByte(wr[hasher], j)
//@   deterministic @inputs: in inputHash, sharedCache.BinaryContentID, sharedCache.GOGARBLE, flagLiterals, flagTiny, flagSeed.bytes, flagControlFlow, literals.TestObfuscator
//@ end

//@ func hashWithPackage
//@   property C12 C16
//@   spec chars.smt2 hashstate.smt2
//@   hooks hasher
//@   requires name != "" && pkg != nil
//@   fact @init-nameBase64: spec.IsURLNoPad(nameBase64)
//@   assigns sumBuffer, b64NameBuffer, ghost wr
//@   ensures @length: 6 <= len(r0) && len(r0) <= 12
//@   ensures @alphabet: forall i int :: 0 <= i && i < len(r0) ==> spec.IdentChar(r0[i])
//@   ensures @first-not-digit: !spec.IsDigit(r0[0])
//@   ensures @export-preserved: token.IsIdentifier(name) ==> (spec.IsUpper(r0[0]) <==> token.IsExported(name))
//@   ensures @seeded-hash-input: len(flagSeed.bytes) > 0 ==> wr[hasher] == spec.HWriteS(spec.HWriteS(spec.HWriteS(spec.HEmpty(), pkg.ImportPath+"|"), old(str(flagSeed.bytes))), name)
//@   ensures @unseeded-hash-input: len(flagSeed.bytes) == 0 ==> wr[hasher] == spec.HWriteS(spec.HWriteS(spec.HWriteS(spec.HEmpty(), old(str(pkg.GarbleActionID[:]))), old(str(flagSeed.bytes))), name)
//@   deterministic @function-of-seed-path-actionid-name: in flagSeed.bytes, pkg.ImportPath, pkg.GarbleActionID, name
//@   deterministic @seeded-name-from-seed-path-name: when len(flagSeed.bytes) > 0 in flagSeed.bytes, pkg.ImportPath, name
//@   deterministic @unseeded-name-from-action-id: when len(flagSeed.bytes) == 0 in flagSeed.bytes, pkg.GarbleActionID, name
//@ end

//@ ghost lastGarbleSum string
//@ ghost garbleSumTaken bool

//@ hookset structsalt
//@ hook before mvdan.cc/garble.addGarbleToHash(in)
//@   assert("garble-inputs-are-added-to-the-struct-shape-hash", str(in) == strconv.FormatUint(uint64(typeutil_hash(strct)), 32))
//@ hook after mvdan.cc/garble.addGarbleToHash(in) (out)
//@   lastGarbleSum = str(out[:])
//@   garbleSumTaken = true
//@ end

//@ func hashWithStruct
//@   property C12 C15 C16
//@   spec chars.smt2 hashstate.smt2 garbleflags.smt2
//@   hooks hasher structsalt
//@   ensures @seeded-salt-is-the-struct-shape: len(flagSeed.bytes) > 0 ==> wr[hasher] == spec.HWriteS(spec.HWriteS(spec.HWriteS(spec.HEmpty(), strconv.FormatUint(uint64(typeutil_hash(strct)), 32)), old(str(flagSeed.bytes))), field.Name())
//@   ensures @unseeded-salt-carries-the-garble-inputs: len(flagSeed.bytes) == 0 ==> wr[hasher] == spec.HWriteS(spec.HWriteS(spec.HWriteS(spec.HEmpty(), lastGarbleSum), old(str(flagSeed.bytes))), field.Name())
//@   requires field.Name() != "" && sharedCache != nil && len(sharedCache.BinaryContentID) > 0
//@   fact @init-nameBase64: spec.IsURLNoPad(nameBase64)
//@   assigns sumBuffer, b64NameBuffer, ghost wr, ghost lastGarbleSum, ghost garbleSumTaken
//@   ensures @length: 6 <= len(r0) && len(r0) <= 12
//@   ensures @alphabet: forall i int :: 0 <= i && i < len(r0) ==> spec.IdentChar(r0[i])
//@   ensures @first-not-digit: !spec.IsDigit(r0[0])
//@   ensures @export-preserved: token.IsIdentifier(field.Name()) ==> (spec.IsUpper(r0[0]) <==> token.IsExported(field.Name()))
//@   deterministic @function-of-shape-name-and-garble-inputs: in flagSeed.bytes, typeutil_hash(strct), field.Name(), sharedCache.BinaryContentID, sharedCache.GOGARBLE, flagLiterals, flagTiny, flagControlFlow, literals.TestObfuscator
//@   deterministic @seeded-field-from-seed-shape-name: when len(flagSeed.bytes) > 0 in flagSeed.bytes, typeutil_hash(strct), field.Name()
//@   deterministic @unseeded-field-from-shape-and-garble-inputs: when len(flagSeed.bytes) == 0 in flagSeed.bytes, typeutil_hash(strct), field.Name(), sharedCache.BinaryContentID, sharedCache.GOGARBLE, flagLiterals, flagTiny, flagControlFlow, literals.TestObfuscator
//@ end

//@ func (*seedFlag).Set
//@   property C12
//@   ensures @accepted-has-8-bytes: r0 == nil ==> len(f.bytes) >= 8
//@   ensures @rejected-keeps-seed: r0 != nil && old(s) != "random" ==> ref(f.bytes) == old(ref(f.bytes)) && len(f.bytes) == old(len(f.bytes))
//@   ensures @random-is-8: old(s) == "random" && r0 == nil ==> len(f.bytes) == 8 && f.random
//@ end

// ---- C03: order assumptions (listed in evidence as unchecked) ----
//@ order_insensitive main.computeFieldToStruct map-order#0 because every iteration only adds fieldToStruct[origin field] = struct entries keyed by the field; recordFieldToStruct panics if two structs claim one field, so the resulting map does not depend on the visiting order
//@ order_insensitive main.(*reflectInspector).ignoreReflectedTypes map-order#0 because the pass only adds entries to the ReflectAPIs / ReflectObjectNames sets and is iterated to a fix-point by recordReflection; an order-dependent result was looked for (38 rebuilds, DESIGN section 12) and not found
//@ order_insensitive ctrlflow.(*trashGenerator).cacheMethods map-order#0 because each iteration fills methodCache[type] once per distinct type from that type's own method set; the cache content is independent of the visiting order

// ---- C15: struct identity hash ----

//@ func (typeutil_hasher).hash
//@   property C15
//@   trusted bundled x/tools type hasher; only the dependency set of its struct case is an obligation here
//@   case_calls *types.Struct: NumFields, Field, Anonymous, Name, typeutil_hashString
//@ end

// ---- C07: every cache reader treats an unreadable entry as a miss ----

//@ ghost anyErr bool
//@ ghost lastGetErr bool
//@ ghost lastHasDep bool
//@ ghost merged bool
//@ ghost computeCalled bool

//@ hookset cachemiss
//@ hook after var:openCache() (c, err)
//@   if err != nil { anyErr = true }
//@ hook after (*github.com/rogpeppe/go-internal/cache.Cache).GetFile(c, id) (file, entry, err)
//@   lastGetErr = err != nil
//@   merged = false
//@   if err != nil { anyErr = true }
//@ hook after os.ReadFile(name) (data, err)
//@   if err != nil { anyErr = true }
//@ hook after (*mvdan.cc/garble.goAsmNames).UnmarshalMsg(z, b) (o, err)
//@   if err != nil { anyErr = true }
//@ hook after (*mvdan.cc/garble.listedPackage).hasDep(l, path) (r)
//@   lastHasDep = r
//@ hook before (*mvdan.cc/garble.pkgCache).CopyFrom(c, other)
//@   merged = true
//@ hook before mvdan.cc/garble.computePkgCache(a, b, c, d, e, f)
//@   computeCalled = true
//@   assert("recompute-only-after-a-miss", lastGetErr)
//@ hook after value() (err)
//@   assert("hit-is-merged", err != nil || lastGetErr || merged)
//@   assert("missed-dependency-that-imports-reflect-is-recomputed-and-merged", err != nil || !lastGetErr || !lastHasDep || merged)
//@ end

//@ hookset hasher
//@ hook after crypto/sha256.New() (h)
//@   wr[h] = spec.HEmpty()
//@ end

//@ hookset asmcache
//@ hook before mvdan.cc/garble.goAsmCacheID(id)
//@   assert("[C06,C17] assembly-name-map-is-keyed-by-the-garble-action-id-of-the-package", str(id[:]) == str(lpkg.GarbleActionID[:]))
//@ end

//@ hookset asmcachesave
//@ hook before mvdan.cc/garble.goAsmCacheID(id)
//@   assert("[C06,C17] assembly-name-map-is-keyed-by-the-garble-action-id-of-the-package", str(id[:]) == str(tf.curPkg.GarbleActionID[:]))
//@ hook before mvdan.cc/garble.hashWithPackage(pkg, n)
//@   assert("[C01] type-names-in-go_asm.h-are-hashed-like-the-declarations", pkg == tf.curPkg && n == name)
//@ hook before mvdan.cc/garble.hashWithStruct(st, f)
//@   assert("[C01] field-names-in-go_asm.h-are-hashed-with-their-struct", st == strct && f == field)
//@ end

//@ func (*transformer).saveGoAsmNames
//@   property C06 C17 C01
//@   hooks asmcachesave
//@   requires tf != nil && tf.curPkg != nil
//@   skip safety call-requires
//@ end

//@ func loadGoAsmNames
//@   property C07 C06 C17
//@   hooks cachemiss asmcache
//@   requires !anyErr
//@   ensures @any-error-is-a-miss: anyErr ==> isnil(r0)
//@ end

//@ func loadDebugArtifactsForPkg
//@   property C07
//@   hooks cachemiss dbgkey
//@   assigns ghost lastGetErr, ghost merged, ghost anyErr
//@   ensures @unreadable-entry-is-a-miss-not-an-error: lastGetErr ==> !r1 && r2 == nil
//@ end

//@ func debugArtifactsExistForPkg
//@   property C07
//@   hooks cachemiss dbgkey
//@   ensures @exists-iff-readable: r0 <==> !lastGetErr
//@ end

//@ func loadPkgCache
//@   property C07 C03
//@   hooks cachemiss
//@   requires !computeCalled && !anyErr && !lastGetErr
//@   ensures @miss-recomputes: lastGetErr ==> computeCalled
//@   ensures @hit-does-not-recompute: !lastGetErr ==> !computeCalled
//@ end

//@ func computePkgCache
//@   property C07 C03
//@   hooks cachemiss parse
//@   skip safety
//@ end

//@ func goAsmCacheID
//@   property C06 C17
//@   spec hashstate.smt2
//@   hooks hasher
//@   ensures @key: forall j int :: 0 <= j && j < 32 ==> r0[j] == spec.ShaByte(spec.HWriteS(spec.HWriteS(spec.HEmpty(), old(str(garbleActionID[:]))), "\x00go-asm-names-v1\x00"), j)
//@ end

//@ func debugArtifactsCacheID
//@   property C06
//@   spec hashstate.smt2
//@   hooks hasher
//@   ensures @key: forall j int :: 0 <= j && j < 32 ==> r0[j] == spec.ShaByte(spec.HWriteS(spec.HWriteS(spec.HWriteS(spec.HEmpty(), old(str(garbleActionID[:]))), "\x00debugdir-cache-v1\x00"), kind), j)
//@ end

// ---- C19 / C17 / C18: garble writes and removes only what it owns ----
// may[p]: this process may create, overwrite or remove p: it is (under) a directory made by
// os.MkdirTemp here, or the -debugdir target after the ownership test.
// marker[p]: os.Lstat(p) succeeded. envShared: the value of GARBLE_SHARED in this process.

//@ ghost may map[string]bool
//@ ghost marker map[string]bool
//@ ghost envShared string
//@ ghost dirOf map[string]string
//@ ghost wroteOutsideOwned bool
//@ ghost tempMade bool
//@ ghost tempDir string
//@ ghost removed map[string]bool
//@ ghost dbgMade bool
//@ ghost dbgMarked bool

//@ hookset fs
//@ hook after os.MkdirTemp(dir, pattern) (name, err)
//@   if err == nil { may[name] = true }
//@ hook after path/filepath.Join(a, b) (r)
//@   dirOf[r] = a
//@   if may[a] || marker[filepath.Join(a, ".garble-debugdir")] { may[r] = true }
//@ hook after os.ReadDir(p) (entries, err)
//@   if errors.Is(err, fs.ErrNotExist) || (err == nil && len(entries) == 0) { may[p] = true }
//@ hook after os.Lstat(p) (fi, err)
//@   if err == nil { marker[p] = true }
//@ hook after os.Unsetenv(k) (err)
//@   if k == "GARBLE_SHARED" { envShared = "" }
//@ hook after os.Setenv(k, v) (err)
//@   if k == "GARBLE_SHARED" { envShared = v }
//@ hook after os.Getenv(k) (v)
//@   if k == "GARBLE_SHARED" { assume(v == envShared) }
//@ hook before os.RemoveAll(p)
//@   assert("removes-only-what-this-process-owns", p == "" || may[p] || marker[filepath.Join(p, ".garble-debugdir")])
//@   removed[p] = true
//@ hook after mvdan.cc/garble.saveSharedCache() (dir, err)
//@   if err == nil { tempMade = true }
//@   if err == nil { tempDir = dir }
//@ hook before os.Remove(p)
//@   assert("removes-only-what-this-process-owns", may[p])
//@ hook before os.MkdirAll(p, perm)
//@   assert("creates-only-under-owned-directories", may[p] || marker[filepath.Join(p, ".garble-debugdir")])
//@ hook before os.WriteFile(p, data, perm)
//@   assert("writes-only-under-owned-directories", may[p] || may[dirOf[p]] || marker[filepath.Join(dirOf[p], ".garble-debugdir")])
//@ hook after os.WriteFile(p, data, perm) (err)
//@   if err == nil && p == filepath.Join(flagDebugDir, ".garble-debugdir") { dbgMarked = true }
//@ hook after os.MkdirAll(p, perm) (err)
//@   if err == nil && p == flagDebugDir { dbgMade = true }
//@ hook before os.OpenFile(name, flag, perm)
//@   assert("files-are-created-exclusively", flag == os.O_RDWR|os.O_CREATE|os.O_EXCL)
//@   assert("creates-only-under-owned-directories", may[name])
//@ hook before mvdan.cc/garble.writeFileExclusive(name, data)
//@   assert("writes-only-under-owned-directories", may[name])
//@ hook before mvdan.cc/garble.writeDebugDirFile(subdir, pkg, rel, content)
//@   assert("debugdir-owned-before-use", may[flagDebugDir] || marker[filepath.Join(flagDebugDir, ".garble-debugdir")])
//@ end

//@ func createExclusive
//@   property C17 C19
//@   hooks fs
//@   requires may[name]
//@   assigns nothing
//@ end

//@ func writeFileExclusive
//@   property C17 C19
//@   hooks fs
//@   requires may[name]
//@   assigns nothing
//@ end

//@ func saveSharedCache
//@   property C17 C18 C19
//@   hooks fs
//@   may_panic when sharedCache == nil
//@   assigns ghost may, ghost dirOf
//@   ensures @fresh-owned-dir: r1 == nil ==> may[r0]
//@   ensures @may-only-grows: forall q string :: old(may[q]) ==> may[q]
//@ end

//@ func writeDebugDirFile
//@   property C19
//@   hooks fs
//@   assigns ghost may, ghost dirOf
//@   requires may[flagDebugDir] || marker[filepath.Join(flagDebugDir, ".garble-debugdir")]
//@   ensures @may-only-grows: forall q string :: old(may[q]) ==> may[q]
//@ end

//@ ghost gfTested int
//@ ghost gfBad bool

//@ hookset garbleflags
//@ hook before (*regexp.Regexp).MatchString(re, str)
//@   assert("[C20] every-argument-before-the-packages-is-tested-as-a-whole-against-the-garble-flag-pattern", re == rxGarbleFlag && gfTested < len(flags) && str == flags[gfTested])
//@ hook after (*regexp.Regexp).MatchString(re, str) (r)
//@   gfTested = gfTested + 1
//@   if r { gfBad = true }
//@ hook before mvdan.cc/garble.newListedPackages()
//@   assert("[C20] no-argument-before-the-packages-escapes-the-garble-flag-test", gfTested == len(flags) && !gfBad)
//@ end

//@ func toolexecCmd
//@   property C19 C18 C20 C02 C14
//@   hooks fs garbleflags
//@   requires !anySelected && !dbgMade && !dbgMarked && !dbgMissing && gfTested == 0 && !gfBad
//@   spec goflags.smt2
//@   maxpaths 4000
//@   assigns *, ghost may, ghost marker, ghost envShared, ghost dirOf, ghost tempMade, ghost tempDir, ghost removed, ghost dbgMade, ghost dbgMarked
//@   ensures @env-names-only-an-owned-dir: envShared == "" || may[envShared]
//@   ensures @temp-dir-is-always-handed-to-the-cleanup: tempMade && !old(tempMade) ==> envShared == tempDir
//@   ensures @at-most-one-temp-dir: !tempMade ==> envShared == ""
//@   ensures @a-garble-flag-after-the-command-is-rejected: [C20] gfBad ==> r1 != nil
//@   loop 0
//@     invariant @flags-are-tested-one-by-one-in-order: [C20] gfTested == _i && !gfBad
//@   ensures @debug-dir-carries-its-ownership-marker-before-the-build-starts: [C18,C19] r1 == nil && dbgMade ==> dbgMarked
//@ end

//@ ghost linkPatched bool
//@ ghost tinyEnvSet bool

//@ hookset linkrun
//@ hook after mvdan.cc/garble/internal/linker.PatchLinker(a, b, c, d) (p, u, err)
//@   if err == nil { linkPatched = true }
//@ hook before (*os/exec.Cmd).Run(cmd)
//@   assert("patched-linker-runs-while-its-lock-is-held", !linkPatched || lockHeld)
//@   assert("tiny-is-forwarded-to-the-patched-linker", !linkPatched || !flagTiny || tinyEnvSet)
//@ hook after os.Setenv(k, v) (err)
//@   if k == "GARBLE_LINK_TINY" && v == "true" { tinyEnvSet = true }
//@ end

//@ func mainErr
//@   property C19 C17 C10
//@   hooks fs linkrun linker
//@   maxpaths 4000
//@   requires !lockHeld && !everLocked && unlocks == 0 && !built && !stamped && !linkPatched && !anySelected && !dbgMade && !dbgMarked && !revWasCall && !dbgMissing && gfTested == 0 && !gfBad && !mapPending
//@   ensures @lock-released-once-after-the-link: linkPatched ==> !lockHeld && unlocks == 1
//@   ensures @no-lock-leak: !lockHeld
//@   ensures @temp-dir-removed-on-every-exit: [C19] tempMade && !old(tempMade) ==> removed[tempDir]
//@ end

//@ ghost wsDir string

//@ hookset srcpath
//@ hook after (*mvdan.cc/garble.listedPackage).obfuscatedSourceDir(p) (r)
//@   wsDir = r
//@ end

//@ func (*transformer).writeSourceFile
//@   property C19 C17 C02 C01
//@   hooks fs srcpath
//@   requires may[sharedTempDir] && tf != nil && tf.curPkg != nil && tf.curPkg.ImportPath != ""
//@   requires flagDebugDir != "" ==> may[flagDebugDir] || marker[filepath.Join(flagDebugDir, ".garble-debugdir")]
//@   ensures @file-lands-under-the-hashed-directory-of-the-package-in-the-temp-dir: [C01,C02] r1 == nil ==> r0 == filepath.Join(filepath.Join(old(sharedTempDir), wsDir), obfuscated)
//@   ensures @error-yields-no-path: r1 != nil ==> r0 == ""
//@ end

// ---- C01/C02: the assembler's two passes agree on where the obfuscated sources are ----

//@ ghost asmObfPkg string
//@ ghost asmDir string
//@ ghost asmHashed string

//@ hookset asmfiles
//@ hook after (*mvdan.cc/garble.listedPackage).obfuscatedImportPath(p) (r)
//@   asmObfPkg = r
//@ hook before mvdan.cc/garble.flagSetValue(f, n, v)
//@   assert("assembler-is-told-the-obfuscated-package-path", n == "-p" && v == asmObfPkg)
//@ hook before mvdan.cc/garble.hashWithPackage(pkg, n)
//@   assert("[C02] assembly-file-names-are-hashed-with-the-package-from-the-base-name", pkg == tf.curPkg && n == filepath.Base(path))
//@ hook after mvdan.cc/garble.hashWithPackage(pkg, n) (r)
//@   asmHashed = r
//@ hook after (*mvdan.cc/garble.listedPackage).obfuscatedSourceDir(p) (r)
//@   assert("second-pass-looks-in-the-directory-of-the-package-being-assembled", p == tf.curPkg)
//@   asmDir = r
//@ hook before (*mvdan.cc/garble.transformer).writeSourceFile(t, b, o, content)
//@   assert("[C02] first-pass-writes-sources-under-hashed-names-and-headers-under-garbled-names", o == asmHashed + ".s" || o == "garbled_" + b)
//@ end

//@ func (*transformer).transformAsm
//@   property C01 C02
//@   hooks asmfiles
//@   requires tf != nil && tf.curPkg != nil
//@   skip safety call-requires
//@   maxpaths 6000
//@   may_panic when true
//@ end

//@ func restoreDebugArtifactsForPkg
//@   property C19
//@   hooks fs
//@   requires may[flagDebugDir] || marker[filepath.Join(flagDebugDir, ".garble-debugdir")]
//@   skip safety
//@   loop 0
//@     invariant may[flagDebugDir] || marker[filepath.Join(flagDebugDir, ".garble-debugdir")]
//@   loop 1
//@     invariant may[flagDebugDir] || marker[filepath.Join(flagDebugDir, ".garble-debugdir")]
//@ end

// ---- C14 / C01 / C13: what a package is called in the obfuscated build ----

//@ func (*listedPackage).obfuscatedPackageName
//@   property C14 C01 C13
//@   spec chars.smt2 hashstate.smt2
//@   hooks hasher
//@   requires p != nil && p.Name != ""
//@   assigns sumBuffer, b64NameBuffer, ghost wr
//@   ensures @plain-package-keeps-its-name: !p.ToObfuscate ==> r0 == p.Name
//@   ensures @main-keeps-its-name: p.Name == "main" ==> r0 == "main"
//@   ensures @hashed-otherwise: p.ToObfuscate && p.Name != "main" ==> r0 == old(hashWithPackage(p, p.Name))
//@ end

//@ func (*listedPackage).obfuscatedSourceDir
//@   property C14 C02 C13
//@   spec chars.smt2 hashstate.smt2
//@   hooks hasher
//@   requires p != nil && p.ImportPath != ""
//@   assigns sumBuffer, b64NameBuffer, ghost wr
//@   ensures @hashed-directory: p.ToObfuscate ==> r0 == old(hashWithPackage(p, p.ImportPath))
//@   ensures @plain-package-keeps-its-directory: [C14] !p.ToObfuscate ==> r0 == p.ImportPath
//@ end

//@ func (*listedPackage).obfuscatedImportPath
//@   property C14 C01 C13 C02
//@   spec chars.smt2 hashstate.smt2
//@   hooks hasher
//@   requires p != nil && p.ImportPath != ""
//@   assigns sumBuffer, b64NameBuffer, ghost wr
//@   ensures @main-is-main: p.Name == "main" && p.ForTest == "" ==> r0 == "main"
//@   ensures @plain-package-keeps-its-path: !(p.Name == "main" && p.ForTest == "") && !p.ToObfuscate ==> r0 == p.ImportPath
//@   ensures @toolchain-known-paths-kept: p.ImportPath == "runtime" || p.ImportPath == "reflect" || p.ImportPath == "embed" || has(compilerIntrinsics, p.ImportPath) || has(runtimeAndLinknamed, p.ImportPath) ==> r0 == p.ImportPath || r0 == "main"
//@   ensures @hashed-otherwise: p.ToObfuscate && !(p.Name == "main" && p.ForTest == "") && !(p.ImportPath == "runtime" || p.ImportPath == "reflect" || p.ImportPath == "embed" || p.ImportPath == "internal/runtime/syscall/linux" || p.ImportPath == "internal/runtime/syscall/windows" || p.ImportPath == "internal/runtime/startlinetest" || has(compilerIntrinsics, p.ImportPath) || has(runtimeAndLinknamed, p.ImportPath)) ==> r0 == old(hashWithPackage(p, p.ImportPath))
//@ end

// ---- C14: GOGARBLE selects exactly which packages are obfuscated ----

//@ ghost anySelected bool
//@ ghost selPath string

//@ hookset listing
//@ hook before (*mvdan.cc/garble.listedPackages).set(l, path, p)
//@   selPath = ite(p.ForTest != "", p.ForTest, p.ImportPath)
//@   assert("selection-is-as-stated", p.ToObfuscate == (!runtimeAndDeps[selPath] && selPath != "runtime/cgo" && selPath != "crypto/internal/fips140" && !strings.HasPrefix(selPath, "crypto/internal/fips140/") && len(p.CompiledGoFiles) > 0 && ((p.Name == "main" && strings.HasSuffix(selPath, ".test")) || selPath == "command-line-arguments" || strings.HasPrefix(selPath, "plugin/unnamed") || module.MatchPrefixPatterns(sharedCache.GOGARBLE, selPath))))
//@   assert("recorded-under-its-import-path", path == p.ImportPath)
//@   if p.ToObfuscate { anySelected = true }
//@ end

//@ func (*listedPackages).set
//@   trusted stores the entry in the map of listed packages
//@   assigns listedPackages.entries

//@ func (*listedPackages).has
//@   pure
//@   trusted map lookup (decoded entries or the index)

//@ func appendListedPackages
//@   property C14 C06 C12
//@   hooks listing buildids pkgactionid
//@   maxpaths 4000
//@   skip safety call-requires
//@   requires !anySelected
//@   assigns *, ghost anySelected, ghost selPath
//@   ensures @no-match-is-an-error-not-a-plain-build: mainBuild && r0 == nil ==> anySelected || module.MatchPrefixPatterns(old(sharedCache.GOGARBLE), "runtime")
//@   ensures @selected-only-grows: old(anySelected) ==> anySelected
//@   loop 0
//@     invariant anyToObfuscate ==> anySelected
//@ end

//@ func splitActionID
//@   inline

//@ func splitContentID
//@   inline

//@ func decodeBuildIDHash
//@   property C06
//@   assigns nothing
//@   may_panic when true
//@   ensures @fifteen-bytes: len(r0) == 15
//@ end

//@ func debugSince
//@   inline

//@ func linknamedToList
//@   property C14
//@   assigns nothing
//@   skip safety
//@ end

//@ func (*sharedCacheType).MarshalMsg
//@   trusted generated msgp encoder: appends to the buffer it is given, does not modify the value
//@   assigns nothing
//@ end

// ---- C10: -tiny ----

//@ func stripRuntime#stripPrints
//@   property C10
//@   skip safety call-requires
//@   ensures @print-builtins-are-redirected: old(dyntypeis(node, *ast.CallExpr) && dyntypeis(node.(*ast.CallExpr).Fun, *ast.Ident) && (node.(*ast.CallExpr).Fun.(*ast.Ident).Name == "print" || node.(*ast.CallExpr).Fun.(*ast.Ident).Name == "println")) ==> node.(*ast.CallExpr).Fun.(*ast.Ident).Name == "hidePrint"
//@   ensures @the-walk-only-stops-below-a-redirected-print: !r0 ==> old(dyntypeis(node, *ast.CallExpr) && dyntypeis(node.(*ast.CallExpr).Fun, *ast.Ident) && (node.(*ast.CallExpr).Fun.(*ast.Ident).Name == "print" || node.(*ast.CallExpr).Fun.(*ast.Ident).Name == "println"))
//@   ensures @other-calls-are-kept: old(dyntypeis(node, *ast.CallExpr) && dyntypeis(node.(*ast.CallExpr).Fun, *ast.Ident) && node.(*ast.CallExpr).Fun.(*ast.Ident).Name != "print" && node.(*ast.CallExpr).Fun.(*ast.Ident).Name != "println") ==> node.(*ast.CallExpr).Fun.(*ast.Ident).Name == old(node.(*ast.CallExpr).Fun.(*ast.Ident).Name)
//@ end

// ---- C04: garble reverse streams every line through the replacer ----

//@ ghost rcIn string
//@ ghost rcSrc string
//@ ghost rcWant string
//@ ghost rcOut string
//@ ghost rcChanged bool
//@ ghost rcDone bool
//@ ghost rcEOF bool
//@ ghost rcWriteFailed bool

//@ hookset revstream
//@ hook after bufio.NewReader(rd) (b)
//@   rcIn = ""
//@   rcSrc = ""
//@   rcWant = ""
//@   rcOut = ""
//@   rcDone = false
//@   rcEOF = false
//@   rcWriteFailed = false
//@ hook after (*bufio.Reader).ReadString(b, delim) (line, err)
//@   rcIn = rcIn + line
//@   if err == io.EOF { rcEOF = true }
//@   if err != nil || err == io.EOF { rcDone = true }
//@ hook after (*strings.Replacer).Replace(r, s) (out)
//@   rcSrc = rcSrc + s
//@   rcWant = rcWant + out
//@   if out != s { rcChanged = true }
//@ hook after io.WriteString(w, s) (n, err)
//@   if err == nil { rcOut = rcOut + s }
//@   if err != nil { rcWriteFailed = true }
//@ end

//@ func reverseContent
//@   property C04
//@   hooks revstream
//@   assigns ghost rcIn, ghost rcSrc, ghost rcWant, ghost rcOut, ghost rcChanged, ghost rcDone, ghost rcEOF, ghost rcWriteFailed
//@   ensures @end-of-input-is-success: rcEOF && !rcWriteFailed ==> r1 == nil
//@   ensures @every-line-read-goes-through-the-replacer-in-order: r1 == nil ==> rcSrc == rcIn
//@   ensures @output-is-the-replaced-lines-in-order: r1 == nil ==> rcOut == rcWant
//@   ensures @input-is-read-to-the-end: r1 == nil ==> rcDone
//@   ensures @modified-iff-some-line-changed: rcChanged == (old(rcChanged) || r0)
//@   loop 0
//@     invariant rcSrc == rcIn && rcOut == rcWant && !rcDone && !rcEOF && !rcWriteFailed
//@     invariant rcChanged == (entry(rcChanged) || modified)
//@ end

//@ ghost revLenBefore int
//@ ghost revWasCall bool

//@ func commandReverse
//@   property C04 C13 C19
//@   spec paths.smt2
//@   hooks revstream revkey fs
//@   maxpaths 4000
//@   skip safety
//@   requires !anySelected && !dbgMade && !dbgMarked && !revWasCall && !dbgMissing && gfTested == 0 && !gfBad
//@   unclaimed hashWithPackage/requires because the names come from go list output and from parsed declarations; that those are non-empty is an invariant of go/parser and cmd/go, not of this function
//@   unclaimed hashWithStruct/requires because the field objects come from go/types and the content ID from the shared cache written by the parent process
//@   case_calls *ast.FuncDecl: addHashedWithPackage
//@   case_calls *ast.TypeSpec: addHashedWithPackage
//@   case_calls *ast.Field: ObjectOf, IsField, Origin, hashWithStruct, append, panic
//@   case_calls *ast.ValueSpec: addHashedWithPackage
//@   ensures @temp-dir-removed-on-every-exit: [C19] tempMade && !old(tempMade) ==> removed[tempDir]
//@   ensures @exit-status-tells-whether-anything-was-replaced: r0 == nil && !old(rcChanged) ==> rcChanged
//@   loop 0
//@     invariant @replacement-list-is-made-of-obfuscated-original-pairs: len(replaces) % 2 == 0
//@   loop 1
//@     invariant len(replaces) % 2 == 0
//@   loop 2
//@     invariant len(replaces) % 2 == 0
//@   loop 3
//@     iter revLenBefore = len(replaces)
//@     iter revWasCall = dyntypeis(node, *ast.CallExpr)
//@     invariant len(replaces) % 2 == 0
//@     invariant @every-call-expression-the-build-marks-gets-its-two-position-pairs: [C04] revWasCall ==> len(replaces) == revLenBefore + 4
//@   loop 4
//@     invariant len(replaces) % 2 == 0
//@   loop 5
//@     invariant len(replaces) % 2 == 0
//@   loop 6
//@     invariant rcChanged == (entry(rcChanged) || anyModified)
//@ end

//@ ghost lastRead string

//@ hookset readsrc
//@ hook after os.ReadFile(name) (data, err)
//@   if err == nil { lastRead = str(data) }
//@ end

//@ func reflectMainPrePatch
//@   property C04 C13 C01
//@   hooks readsrc
//@   assigns ghost lastRead
//@   ensures @nothing-when-already-patched: old(reflectPatchFile) != "" ==> r0 == "" && r1 == nil
//@   ensures @original-source-is-kept-as-a-prefix: r1 == nil && r0 != "" ==> strings.HasPrefix(r0, lastRead)
//@ end

// ---- C04/C13: the trees that map and reverse inspect are the listed files, in order, unpatched ----

//@ ghost parsedN int
//@ ghost parsedAt map[int]string
//@ ghost parsedTree map[int]ref
//@ ghost parsedPatched map[int]bool

//@ hookset parse
//@ hook after go/parser.ParseFile(fs, filename, src, mode) (f, err)
//@   if err == nil { parsedAt[parsedN] = filename }
//@   if err == nil { parsedTree[parsedN] = f }
//@   if err == nil { parsedPatched[parsedN] = !isnil(src) }
//@   if err == nil { parsedN = parsedN + 1 }
//@ end

//@ func abiNamePatch
//@   property C04 C13
//@   hooks readsrc
//@   assigns ghost lastRead
//@   ensures @error-or-source: r1 != nil ==> r0 == ""
//@ end

//@ func parseFiles
//@   property C04 C13
//@   hooks parse
//@   skip safety
//@   requires parsedN == 0
//@   assigns reflectPatchFile, ghost parsedN, ghost parsedAt, ghost parsedTree, ghost parsedPatched, ghost lastRead
//@   ensures @one-tree-per-listed-file: err == nil ==> len(files) == len(paths) && parsedN == len(paths)
//@   ensures @trees-in-listed-order: err == nil ==> forall k int :: 0 <= k && k < len(paths) ==> files[k] == parsedTree[k] && parsedAt[k] == ite(filepath.IsAbs(paths[k]), paths[k], filepath.Join(dir, paths[k]))
//@   ensures @sources-unpatched-outside-the-build: err == nil && !mainPatch && lpkg.ImportPath != "internal/abi" ==> forall k int :: 0 <= k && k < len(paths) ==> !parsedPatched[k]
//@   loop 0
//@     invariant len(files) == _i && parsedN == _i && err == nil
//@     invariant forall k int :: 0 <= k && k < _i ==> files[k] == parsedTree[k] && parsedAt[k] == ite(filepath.IsAbs(paths[k]), paths[k], filepath.Join(dir, paths[k]))
//@     invariant !mainPatch && lpkg.ImportPath != "internal/abi" ==> forall k int :: 0 <= k && k < _i ==> !parsedPatched[k]
//@ end

//@ hookset parse
//@ hook before mvdan.cc/garble.parseFiles(lp, dir, paths, mainPatch)
//@   parsedN = 0
//@ end

//@ func importerForPkg
//@   property C04 C13
//@   requires lpkg != nil
//@   skip safety
//@   assigns listedPackage.allDeps, listedPackages.entries
//@ end

//@ func typecheck
//@   property C04 C13
//@   assigns nothing
//@   skip safety
//@ end

//@ func computeFieldToStruct
//@   property C04 C13
//@   assigns nothing
//@   skip safety
//@ end

//@ func transformerForListedPackage
//@   property C04 C13
//@   hooks parse
//@   requires lpkg != nil
//@   assigns reflectPatchFile, listedPackage.allDeps, listedPackages.entries, ghost parsedN, ghost parsedAt, ghost parsedTree, ghost parsedPatched, ghost lastRead
//@   ensures @trees-are-the-listed-files-in-order: r2 == nil ==> len(r1) == len(lpkg.CompiledGoFiles) && forall k int :: 0 <= k && k < len(r1) ==> r1[k] == parsedTree[k] && parsedAt[k] == ite(filepath.IsAbs(lpkg.CompiledGoFiles[k]), lpkg.CompiledGoFiles[k], filepath.Join(lpkg.Dir, lpkg.CompiledGoFiles[k]))
//@   ensures @sources-are-the-files-on-disk: r2 == nil && lpkg.ImportPath != "internal/abi" ==> forall k int :: 0 <= k && k < len(r1) ==> !parsedPatched[k]
//@   ensures @transformer-is-for-this-package: r2 == nil ==> r0 != nil && r0.curPkg == lpkg
//@ end

//@ hookset revkey
//@ hook before strings.NewReplacer(pairs...)
//@   assert("[C04] replacer-is-given-whole-pairs", len(replaces) % 2 == 0)
//@ hook after fmt.Sprintf(format, args...) (r)
//@   assert("[C04] positions-are-restored-as-import-path-slash-file-colon-line", format == "%s:%d" || format == "%s/%s:%d" || format == "%s/%s")
//@   if format == "%s:%d" && goFile != "" { assert("[C04] reverse-key-names-the-file-the-tree-was-parsed-from", filepath.Base(goFile) == filepath.Base(parsedAt[i])) }
//@   if format == "%s:%d" { assert("[C04] reverse-key-uses-the-base-name-like-the-build", goFile == filepath.Base(goFile)) }
//@ hook before mvdan.cc/garble.hashWithPackage(pkg, name)
//@   assert("reverse-hashes-with-the-package-being-listed", pkg == lpkg)
//@ end

// ---- C04/C02: the build hashes call positions under the same key ----

//@ ghost posFileName string

//@ ghost posHash string
//@ ghost scanOff int
//@ ghost skipPending bool
//@ ghost skipLen int
//@ ghost keepPending bool
//@ ghost copiedBefore int
//@ ghost printedRef ref

//@ hookset fwdpos
//@ hook after (*go/token.File).Name(f) (r)
//@   posFileName = r
//@ hook before mvdan.cc/garble.hashWithPackage(pkg, name)
//@   assert("forward-key-is-hashed-with-the-package-being-built", pkg == lpkg)
//@   assert("forward-key-is-base-name-colon-original-offset", name == fmt.Sprintf("%s:%d", filepath.Base(posFileName), origOffset))
//@   assert("[C10] tiny-builds-hash-no-positions", !flagTiny)
//@ hook after mvdan.cc/garble.hashWithPackage(pkg, name) (r)
//@   posHash = r
//@ hook before fmt.Fprintf(w, format, args...)
//@   assert("[C02,C10] only-line-directives-are-inserted", format == "//line %s:1\n" || format == " /*line %s%s:1*/ ")
//@   assert("[C02] directive-prefix-is-empty-or-cgo", newPrefix == "" || newPrefix == "_cgo_")
//@   if format == " /*line %s%s:1*/ " { assert("[C10] tiny-positions-carry-no-file-name", !flagTiny || newName == "") }
//@   if format == " /*line %s%s:1*/ " { assert("[C02,C04] position-is-the-hashed-key-dot-go", flagTiny || newName == posHash + ".go") }
//@ hook after (*go/scanner.Scanner).Scan(sc) (p, t, l)
//@   skipPending = t == token.COMMENT && !strings.HasPrefix(l, "//go:")
//@   keepPending = t == token.COMMENT && strings.HasPrefix(l, "//go:")
//@   copiedBefore = copied
//@   skipLen = len(l)
//@ hook after (*go/token.File).Position(f, p) (r)
//@   scanOff = r.Offset
//@ hook after (*bytes.Buffer).Bytes(b) (r)
//@   printedRef = ref(r)
//@ end

//@ func printFile
//@   property C04 C02 C10 C14
//@   spec paths.smt2
//@   hooks fwdpos
//@   skip safety
//@   unclaimed hashWithPackage/requires because non-emptiness of the key is immaterial here
//@   ghost pendingOff int = -1
//@   ghost nOffsets int = 0
//@   requires !skipPending && !keepPending
//@   ensures @plain-packages-are-printed-as-parsed: [C14] !old(lpkg.ToObfuscate) && r1 == nil ==> ref(r0) == printedRef
//@   ensures @plain-packages-keep-their-comments: [C14] !old(lpkg.ToObfuscate) ==> ref(file.Comments) == old(ref(file.Comments)) && len(file.Comments) == old(len(file.Comments))
//@   loop 2
//@     iter if dyntypeis(node, *ast.CallExpr) { pendingOff = fsetFile.Position(node.Pos()).Offset }
//@     iter if dyntypeis(node, *ast.Ident) { nOffsets = nOffsets + 1 }
//@     invariant @every-identifier-gets-the-offset-of-the-call-entered-last: nextOffset == pendingOff
//@     invariant @one-offset-per-identifier: len(origCallOffsets) == nOffsets
//@     iter if dyntypeis(node, *ast.Ident) { pendingOff = -1 }
//@   loop 3
//@     invariant @comments-that-are-not-directives-are-skipped: [C02] skipPending ==> copied == scanOff + skipLen
//@     invariant @directives-are-copied-with-the-code: [C01,C02] keepPending ==> copied == copiedBefore
//@ end

// ---- C13/C01: one naming decision, used by the build and by garble map ----

//@ ghost lastListed *listedPackage
//@ ghost lastListedErr bool

//@ hookset naming
//@ hook after mvdan.cc/garble.listPackage(from, path) (lp, err)
//@   lastListed = lp
//@   lastListedErr = err != nil
//@ end

//@ func listPackage
//@   property C13 C01 C14
//@   requires from != nil
//@   skip safety
//@   assigns listedPackage.allDeps, listedPackages.entries
//@   ensures @own-path-is-the-package-itself: old(path) == old(from.ImportPath) ==> r0 == from && r1 == nil
//@   ensures @package-or-error: r1 != nil ==> r0 == nil
//@ end

// A test function is exempt from renaming only if it has no receiver and exactly one parameter whose
// (pointer to) named type is T of the package with import path "testing".
//@ func isTestSignature
//@   property C13 C01 C02
//@   assigns nothing
//@   skip safety
//@   ensures @only-signatures-taking-the-testing-packages-T-are-test-signatures: r0 ==> isnil(sign.Recv()) && sign.Params().Len() == 1 && namedType(sign.Params().At(0).Type()) != nil && namedType(sign.Params().At(0).Type()).Pkg().Path() == "testing" && namedType(sign.Params().At(0).Type()).Name() == "T"
//@   ensures @every-such-signature-is-a-test-signature: isnil(sign.Recv()) && sign.Params().Len() == 1 && namedType(sign.Params().At(0).Type()) != nil && namedType(sign.Params().At(0).Type()).Pkg().Path() == "testing" && namedType(sign.Params().At(0).Type()).Name() == "T" ==> r0
//@ end

//@ func namedType
//@   property C13 C01
//@   pure
//@   assigns nothing
//@   skip safety
//@ end

//@ func (*transformer).obfuscatedObjectName
//@   property C13 C01 C02
//@   hooks naming
//@   requires tf != nil && tf.curPkg != nil
//@   skip safety
//@   unclaimed hashWithPackage/requires because that go/types never hands out an object with an empty name, and that a listed package is never nil when no error is reported, are facts about go/types and the decoded package list
//@   unclaimed hashWithStruct/requires because the field comes from go/types and the content ID from the shared cache written by the parent process
//@   assigns sumBuffer, b64NameBuffer, listedPackage.allDeps, listedPackages.entries, ghost wr, ghost lastListed, ghost lastListedErr
//@   ensures @universe-objects-keep-their-names: isnil(obj.Pkg()) ==> !r1
//@   ensures @packages-outside-the-selection-keep-their-names: !isnil(obj.Pkg()) && r1 ==> lastListed != nil && lastListed.ToObfuscate
//@   ensures @exported-methods-keep-their-names: r1 && dyntypeis(obj, *types.Func) ==> !(obj.Exported() && !isnil(obj.(*types.Func).Signature().Recv()))
//@   ensures @entry-points-keep-their-names: r1 && dyntypeis(obj, *types.Func) ==> obj.Name() != "main" && obj.Name() != "init" && obj.Name() != "TestMain"
//@   ensures @only-vars-types-funcs-are-renamed: r1 ==> dyntypeis(obj, *types.Var) || dyntypeis(obj, *types.TypeName) || dyntypeis(obj, *types.Func)
//@   ensures @fields-are-hashed-with-their-struct: r1 && dyntypeis(obj, *types.Var) && obj.(*types.Var).IsField() ==> r0 == old(hashWithStruct(tf.fieldToStruct[obj.(*types.Var).Origin()], obj.(*types.Var).Origin()))
//@   ensures @everything-else-is-hashed-with-its-own-package: r1 && !(dyntypeis(obj, *types.Var) && obj.(*types.Var).IsField()) ==> r0 == old(hashWithPackage(now(lastListed), obj.Name()))
//@ end

//@ ghost mapAsked ref
//@ ghost mapName string
//@ ghost mapOK bool

//@ ghost mapPending bool

//@ hookset mapnames
//@ hook before (*mvdan.cc/garble.transformer).obfuscatedObjectName(t, o)
//@   assert("map-asks-the-transformer-built-for-the-package-being-listed", t == tf && t.curPkg == lpkg)
//@   assert("map-asks-about-the-object-it-is-looking-at", o == obj)
//@ hook after (*mvdan.cc/garble.transformer).obfuscatedObjectName(t, o) (n, ok)
//@   mapAsked = o
//@   mapName = n
//@   mapOK = ok
//@ hook before (*golang.org/x/tools/go/types/objectpath.Encoder).For(en, o)
//@   assert("map-lists-an-object-only-under-the-name-the-naming-decision-gave-that-very-object", o == obj && mapAsked == obj && mapOK && newName == mapName)
//@ hook before (*mvdan.cc/garble.listedPackage).obfuscatedImportPath(p)
//@   assert("map-reports-the-path-of-the-package-being-listed", p == lpkg && lpkg.ToObfuscate)
//@ hook before mvdan.cc/garble.transformerForListedPackage(p)
//@   assert("map-only-describes-packages-selected-for-obfuscation", p.ToObfuscate)
//@   assert("map-builds-the-transformer-for-the-package-being-listed", p == lpkg)
//@   mapPending = false
//@ end

//@ func commandMap
//@   property C13 C19
//@   hooks mapnames parse fs
//@   maxpaths 4000
//@   requires !anySelected && !dbgMade && !dbgMarked && !dbgMissing && gfTested == 0 && !gfBad && !mapPending
//@   skip safety
//@   unclaimed obfuscatedObjectName/requires because the transformer and its package are non-nil whenever transformerForListedPackage reports no error; the remaining precondition is about go/types
//@   unclaimed obfuscatedImportPath/requires because import paths of listed packages are non-empty by construction of go list
//@   ensures @temp-dir-removed-on-every-exit: [C19] tempMade && !old(tempMade) ==> removed[tempDir]
//@   loop 0
//@     invariant @every-listed-package-selected-for-obfuscation-is-described-none-skipped: [C13] !mapPending
//@     iter mapPending = lpkg.ToObfuscate
//@ end

// ---- C08: what reflection detection records, and under which name ----

//@ ghost lastGot *listedPackage
//@ ghost lastGotOK bool

//@ hookset reflnames
//@ hook after (*mvdan.cc/garble.listedPackages).get(l, path) (lp, ok)
//@   lastGot = lp
//@   lastGotOK = ok
//@ end

//@ func (*reflectInspector).obfuscatedObjectName
//@   property C08 C14
//@   hooks reflnames
//@   requires ri != nil
//@   skip safety
//@   unclaimed hashWithPackage/requires because object names from go/types are never empty and listed packages are non-nil when found
//@   unclaimed hashWithStruct/requires because the field comes from go/types and the content ID from the shared cache
//@   may_panic when true
//@   assigns sumBuffer, b64NameBuffer, listedPackages.entries, ghost wr, ghost lastGot, ghost lastGotOK
//@   ensures @universe-objects-are-never-recorded: isnil(obj.Pkg()) ==> r0 == ""
//@   ensures @fields-are-named-as-the-build-names-them: !isnil(obj.Pkg()) && dyntypeis(obj, *types.Var) && parent != nil ==> r0 == old(hashWithStruct(parent, obj.(*types.Var)))
//@   ensures @own-objects-use-the-package-being-compiled: !isnil(obj.Pkg()) && !(dyntypeis(obj, *types.Var) && parent != nil) && obj.Pkg() == ri.pkg ==> r0 == old(hashWithPackage(ri.lpkg, obj.Name()))
//@   ensures @foreign-objects-use-their-declaring-package: !isnil(obj.Pkg()) && !(dyntypeis(obj, *types.Var) && parent != nil) && obj.Pkg() != ri.pkg ==> r0 == old(hashWithPackage(now(lastGot), obj.Name()))
//@ end

//@ ghost lastObf string

//@ hookset reflnames
//@ hook after (*mvdan.cc/garble.reflectInspector).obfuscatedObjectName(r, o, parent) (name)
//@   lastObf = name
//@ end

//@ func (*reflectInspector).recordUsedForReflect
//@   property C08
//@   hooks reflnames
//@   requires ri != nil
//@   skip safety
//@   may_panic when true
//@   ensures @original-name-recorded-under-the-obfuscated-name: lastObf != "" ==> has(ri.result.ReflectObjectNames, lastObf) && ri.result.ReflectObjectNames[lastObf] == obj.Name()
//@ end

//@ func (*reflectInspector).recursivelyRecordUsedForReflectImpl
//@   property C08
//@   requires ri != nil
//@   skip safety call-requires
//@   may_panic when true
//@   ghost walked int = 0
//@   ensures @type-arguments-are-walked-on-every-path: dyntypeis(t, *types.Named) && !old(visited[t]) && !isnil(t.(*types.Named).Obj().Pkg()) ==> walked == t.(*types.Named).TypeArgs().Len()
//@   loop 0
//@     iter walked = walked + 1
//@     invariant walked == _i
//@   case_calls *types.Alias: Rhs, recursivelyRecordUsedForReflectImpl
//@   case_calls *types.Named: !TypeArgs, Obj, Pkg, usedForReflect, recordUsedForReflect, Origin, Underlying, Len, At, recursivelyRecordUsedForReflectImpl
//@   case_calls *types.Struct: !NumFields, !Field, Pkg, Origin, !Type, !recordUsedForReflect, !recursivelyRecordUsedForReflectImpl
//@   case_calls *types.Map: !Key, !Elem, recursivelyRecordUsedForReflectImpl
//@   case_calls *types.Signature: !Params, !Results, recursivelyRecordUsedForReflectImpl
//@   case_calls *types.Tuple: !Len, !At, Type, recursivelyRecordUsedForReflectImpl
//@ end

//@ func (*reflectInspector).recordArgReflected
//@   property C08
//@   trusted recursion over the SSA value graph with a visited set; only the coverage of its value switch is an obligation here
//@   case_calls *ssa.Call: !Type, !recursivelyRecordUsedForReflect
//@   case_calls *ssa.Extract: !Type, !recursivelyRecordUsedForReflect
//@   case_calls *ssa.TypeAssert: !Type, !recursivelyRecordUsedForReflect
//@   case_calls *ssa.Lookup: !Type, !recursivelyRecordUsedForReflect
//@   case_calls *ssa.Phi: !Type, !recursivelyRecordUsedForReflect
//@   case_calls *ssa.Alloc: !Type, !recursivelyRecordUsedForReflect, Referrers, recordArgReflected, make, relatedParam
//@   case_calls *ssa.Parameter: !Type, !recursivelyRecordUsedForReflect
//@   case_calls *ssa.Global: !Type, !recursivelyRecordUsedForReflect
//@ end

//@ hookset postpatch
//@ hook before mvdan.cc/garble.hashWithPackage(pkg, name)
//@   assert("the-name-searched-for-is-the-name-the-file-was-printed-with", pkg == lpkg && lpkg.ToObfuscate)
//@ end

//@ func reflectMainPostPatch
//@   property C08
//@   hooks postpatch
//@   requires lpkg != nil
//@   skip safety
//@   unclaimed hashWithPackage/requires because the argument is a literal
//@ end

// ---- C01/C02: the link step ----
// -X flags are duplicated under the obfuscated package path and variable name; the Go version,
// build id, DWARF and symbol table are dropped.

//@ ghost xHashed string
//@ ghost xPath string
//@ ghost idStripped bool
//@ ghost cfgSet bool

//@ hookset linkx
//@ hook after (*mvdan.cc/garble.listedPackages).get(l, p) (lp, ok)
//@   assert("x-flag-package-is-looked-up-by-the-path-before-the-last-dot", p == fullName[:strings.LastIndexByte(fullName, '.')])
//@ hook before mvdan.cc/garble.hashWithPackage(pkg, n)
//@   assert("x-flag-variable-is-hashed-with-the-package-it-names", pkg == lpkg && n == fullName[strings.LastIndexByte(fullName, '.')+1:])
//@   assert("x-flag-main-is-the-package-being-linked", fullName[:strings.LastIndexByte(fullName, '.')] != "main" || pkg == tf.curPkg)
//@   assert("x-flag-name-and-value-are-split-at-the-first-equals", val == fullName + "=" + stringValue && !strings.Contains(fullName, "="))
//@ hook after mvdan.cc/garble.hashWithPackage(pkg, n) (r)
//@   xHashed = r
//@ hook before (*mvdan.cc/garble.listedPackage).obfuscatedImportPath(p)
//@   assert("x-flag-path-is-the-obfuscated-path-of-the-package-it-names", p == lpkg)
//@ hook after (*mvdan.cc/garble.listedPackage).obfuscatedImportPath(p) (r)
//@   xPath = r
//@ hook before fmt.Sprintf(format, a0, a1, a2)
//@   assert("x-flag-is-duplicated-under-the-obfuscated-path-and-name", format == "-X=%s.%s=%s" && a0 == xPath && a1 == xHashed && a2 == stringValue)
//@ hook before mvdan.cc/garble.flagSetValue(f, n, v)
//@   if n == "-buildid" { assert("[C02] build-id-is-emptied", v == "") }
//@   if n == "-buildid" { assert("[C02] go-version-is-overridden", (len(f) >= 1 && f[len(f)-1] == "-X=runtime.buildVersion=unknown") || (exists k int :: 0 <= k && k < len(f) && f[k] == "-X=runtime.buildVersion=unknown")) }
//@   if n == "-buildid" { idStripped = true }
//@   if n == "-importcfg" { assert("import-config-is-the-rewritten-one", v == newImportCfg) }
//@   if n == "-importcfg" { assert("[C02] dwarf-and-symbol-table-are-dropped", (len(f) >= 2 && f[len(f)-2] == "-w" && f[len(f)-1] == "-s") || (exists k int :: 0 <= k && k+1 < len(f) && f[k] == "-w" && f[k+1] == "-s")) }
//@   if n == "-importcfg" { cfgSet = true }
//@ end

//@ func (*transformer).transformLink
//@   property C01 C02
//@   hooks linkx
//@   requires tf != nil && tf.curPkg != nil && !idStripped && !cfgSet
//@   skip safety
//@   unclaimed hashWithPackage/requires because the variable name comes from the user's -X flag; cmd/link ignores a flag without a name and so may garble
//@   unclaimed obfuscatedImportPath/requires because listed packages have non-empty import paths by construction of go list
//@   ensures @build-id-and-import-config-are-always-rewritten: r1 == nil ==> idStripped && cfgSet
//@ end

// ---- C12: the runtime's magic number and entry-offset key follow the same inputs as the names ----

//@ func runtimeHashWithCustomSalt
//@   property C12 C03
//@   spec hashstate.smt2
//@   hooks hasher reflnames runtimepkg
//@   requires sharedCache != nil
//@   skip safety
//@   assigns sumBuffer, listedPackages.entries, ghost wr, ghost lastGot, ghost lastGotOK
//@   ensures @seeded-magic-depends-on-the-seed-only: len(flagSeed.bytes) > 0 ==> wr[hasher] == spec.HWriteS(spec.HWriteS(spec.HEmpty(), old(str(flagSeed.bytes))), old(str(salt)))
//@   ensures @unseeded-magic-follows-the-runtime-action-id: len(flagSeed.bytes) == 0 ==> wr[hasher] == spec.HWriteS(spec.HWriteS(spec.HEmpty(), old(str(now(lastGot).GarbleActionID[:]))), old(str(salt)))
//@ end

//@ hookset runtimepkg
//@ hook before (*mvdan.cc/garble.listedPackages).get(l, p)
//@   assert("the-unseeded-salt-is-the-runtime-package", p == "runtime")
//@ end

//@ func (seedFlag).present
//@   inline

// ---- C02/C03: the temp dir never reaches the compiler's recorded paths ----

//@ hookset trim
//@ hook before mvdan.cc/garble.flagSetValue(f, n, v)
//@   assert("temp-dir-is-trimmed-first", n == "-trimpath" && v == sharedTempDir + "=>;" + trimpath)
//@ hook before mvdan.cc/garble.flagValue(f, n)
//@   assert("existing-trimpath-is-kept", n == "-trimpath")
//@ end

//@ func flagValue
//@   pure
//@   trusted last value of a flag in either spelling; iterates flagValues (range-over-func)

//@ func alterTrimpath
//@   property C02 C03
//@   hooks trim
//@   skip safety
//@ end

// ---- C01/C02/C09/C14: one pass over a file: literals only where selected, every identifier through the naming decision ----

//@ ghost litDone bool
//@ ghost askedObj ref
//@ ghost gotName string
//@ ghost gotOK bool
//@ ghost asked bool

//@ hookset gofile
//@ hook before mvdan.cc/garble/internal/literals.Obfuscate(r, f, info, lv, nf)
//@   assert("[C09,C14,C05] literals-are-obfuscated-only-in-selected-packages-under-the-flag", flagLiterals && tf.curPkg.ToObfuscate)
//@   assert("[C05,C09] linker-variables-are-handed-to-the-literal-pass", lv == tf.linkerVariableStrings)
//@   assert("[C03] literals-draw-from-the-seeded-generator", r == tf.obfRand)
//@   litDone = true
//@ hook after (*mvdan.cc/garble.transformer).obfuscatedObjectName(t, o) (n, ok)
//@   gotName = n
//@   gotOK = ok
//@   asked = true
//@ end

//@ func (*transformer).transformGoFile
//@   property C01 C02 C09 C14 C05
//@   hooks gofile
//@   requires tf != nil && tf.curPkg != nil && !litDone
//@   skip safety
//@   ensures @selected-packages-get-their-literals-obfuscated: [C09] old(flagLiterals && tf.curPkg.ToObfuscate) ==> litDone
//@ end

//@ func (*transformer).transformGoFile#pre
//@   property C01 C02
//@   hooks gofile
//@   requires tf != nil && tf.curPkg != nil && !asked
//@   skip safety
//@   unclaimed obfuscatedObjectName/requires because the transformer of a package being compiled always has its listed package
//@   ensures @the-walk-visits-every-node: r0
//@   ensures @blank-stays-blank: old(dyntypeis(cursor.Node(), *ast.Ident) && cursor.Node().(*ast.Ident).Name == "_") ==> cursor.Node().(*ast.Ident).Name == "_"
//@   ensures @renamed-exactly-as-the-naming-decision-says: asked && dyntypeis(cursor.Node(), *ast.Ident) ==> cursor.Node().(*ast.Ident).Name == ite(gotOK, gotName, old(cursor.Node().(*ast.Ident).Name))
//@   ensures @untouched-when-the-decision-is-not-asked: !asked && dyntypeis(cursor.Node(), *ast.Ident) ==> cursor.Node().(*ast.Ident).Name == old(cursor.Node().(*ast.Ident).Name)
//@   ensures @every-identifier-with-an-object-is-asked: old(dyntypeis(cursor.Node(), *ast.Ident) && cursor.Node().(*ast.Ident).Name != "_" && !isnil(tf.info.ObjectOf(cursor.Node().(*ast.Ident))) && !(dyntypeis(tf.info.ObjectOf(cursor.Node().(*ast.Ident)), *types.Var) && tf.info.ObjectOf(cursor.Node().(*ast.Ident)).(*types.Var).Embedded())) ==> asked
//@ end

//@ ghost impListed *listedPackage
//@ ghost impPath string

//@ hookset goimports
//@ hook before mvdan.cc/garble.listPackage(from, path)
//@   assert("imports-are-resolved-from-the-package-being-built", from == tf.curPkg)
//@ hook after mvdan.cc/garble.listPackage(from, path) (lp, err)
//@   impListed = lp
//@ hook before (*mvdan.cc/garble.listedPackage).obfuscatedImportPath(p)
//@   assert("import-path-is-that-of-the-imported-package", p == impListed)
//@ hook after (*mvdan.cc/garble.listedPackage).obfuscatedImportPath(p) (r)
//@   impPath = r
//@ end

//@ func (*transformer).transformGoFile#post
//@   property C01 C02
//@   hooks goimports
//@   requires tf != nil && tf.curPkg != nil
//@   skip safety
//@   may_panic when true
//@   unclaimed obfuscatedImportPath/requires because listed packages have non-empty import paths by construction of go list
//@   ensures @the-walk-visits-every-node: r0
//@   ensures @import-path-is-rewritten-to-the-obfuscated-one: dyntypeis(cursor.Node(), *ast.ImportSpec) ==> cursor.Node().(*ast.ImportSpec).Path.Value == strconv.Quote(impPath)
//@   ensures @unnamed-imports-keep-the-original-package-name: old(dyntypeis(cursor.Node(), *ast.ImportSpec) && cursor.Node().(*ast.ImportSpec).Name == nil) ==> cursor.Node().(*ast.ImportSpec).Name != nil && cursor.Node().(*ast.ImportSpec).Name.Name == impListed.Name
//@   ensures @named-imports-keep-their-name: old(dyntypeis(cursor.Node(), *ast.ImportSpec) && cursor.Node().(*ast.ImportSpec).Name != nil) ==> cursor.Node().(*ast.ImportSpec).Name == old(cursor.Node().(*ast.ImportSpec).Name)
//@ end

// ---- C01/C02/C17: the import configuration handed to the compiler and linker ----
// Rebuilt from importmap/packagefile lines only (so modinfo and friends are dropped), every path
// replaced by what the package is called in this build, written to a fresh file in the owned temp dir.

//@ ghost cfgListed *listedPackage
//@ ghost cfgListedErr bool
//@ ghost cfgPath string
//@ ghost cfgHashed string

//@ hookset importcfg
//@ hook before os.CreateTemp(dir, pattern)
//@   assert("[C17,C19] import-config-is-a-fresh-file-in-the-owned-temp-dir", dir == sharedTempDir)
//@ hook before mvdan.cc/garble.listPackage(from, path)
//@   assert("paths-are-resolved-from-the-package-being-built", from == tf.curPkg)
//@ hook after mvdan.cc/garble.listPackage(from, path) (lp, err)
//@   cfgListed = lp
//@   cfgListedErr = err != nil
//@ hook before mvdan.cc/garble.hashWithPackage(pkg, n)
//@   assert("import-map-source-is-hashed-with-the-package-it-maps-to", pkg == cfgListed && pkg.ToObfuscate)
//@ hook after mvdan.cc/garble.hashWithPackage(pkg, n) (r)
//@   cfgHashed = r
//@ hook before (*mvdan.cc/garble.listedPackage).obfuscatedImportPath(p)
//@   assert("path-is-that-of-the-package-the-line-names", p == cfgListed && !cfgListedErr)
//@ hook after (*mvdan.cc/garble.listedPackage).obfuscatedImportPath(p) (r)
//@   cfgPath = r
//@ hook before fmt.Fprintf(w, format, a0, a1)
//@   assert("[C02] only-importmap-and-packagefile-lines-are-written", format == "importmap %s=%s\n" || format == "packagefile %s=%s\n")
//@   assert("written-to-the-new-file", w == newCfg)
//@   if format == "packagefile %s=%s\n" { assert("package-file-is-listed-under-the-name-the-build-gives-the-package", a0 == cfgPath && a1 == pair[1]) }
//@   if format == "importmap %s=%s\n" { assert("import-map-of-a-selected-package-uses-the-obfuscated-names", cfgListed.ToObfuscate ==> a0 == cfgHashed && a1 == cfgPath) }
//@   if format == "importmap %s=%s\n" { assert("import-map-of-a-plain-package-is-kept", !cfgListed.ToObfuscate ==> a0 == pair[0] && a1 == pair[1]) }
//@ end

//@ func (*transformer).processImportCfg
//@   property C01 C02 C17
//@   hooks importcfg
//@   requires tf != nil && tf.curPkg != nil
//@   skip safety
//@   maxpaths 4000
//@   unclaimed hashWithPackage/requires because import paths in an importcfg written by cmd/go are non-empty
//@   unclaimed obfuscatedImportPath/requires because listed packages have non-empty import paths by construction of go list
//@   results r0, r1
//@   ensures @error-yields-no-file: r1 != nil ==> r0 == ""
//@   loop 1
//@     invariant tf.curPkg != nil
//@   loop 2
//@     invariant tf.curPkg != nil
//@   loop 3
//@     invariant tf.curPkg != nil
//@   loop 4
//@     invariant tf.curPkg != nil
//@ end

// ---- C01: //go:linkname and cgo directives name the obfuscated symbols ----

//@ func (*transformer).directiveLocalName
//@   property C01
//@   spec chars.smt2 hashstate.smt2
//@   hooks hasher
//@   requires tf != nil && tf.curPkg != nil && localName != ""
//@   skip safety
//@   assigns sumBuffer, b64NameBuffer, ghost wr
//@   ensures @plain-package-keeps-the-name: !tf.curPkg.ToObfuscate ==> r0 == localName
//@   ensures @compiler-intrinsics-keep-the-name: compilerIntrinsics[tf.curPkg.ImportPath][localName] ==> r0 == localName
//@   ensures @hashed-like-the-declaration: tf.curPkg.ToObfuscate && !compilerIntrinsics[tf.curPkg.ImportPath][localName] ==> r0 == old(hashWithPackage(tf.curPkg, localName))
//@ end

//@ ghost lnListed *listedPackage
//@ ghost lnErr bool
//@ ghost lnPath string
//@ ghost lnObfPath string

//@ ghost lnLocal string

//@ hookset linkname
//@ hook before (*mvdan.cc/garble.transformer).directiveLocalName(t, l)
//@   assert("local-name-follows-the-declaration-in-this-package", t == tf && l == localName)
//@ hook after (*mvdan.cc/garble.transformer).directiveLocalName(t, l) (r)
//@   lnLocal = r
//@ hook before mvdan.cc/garble.listPackage(from, path)
//@   assert("foreign-package-is-looked-up-from-the-package-being-built", from == tf.curPkg)
//@   assert("candidate-package-path-is-a-prefix-of-the-target", path == newName[:pkgSplit-1])
//@ hook after mvdan.cc/garble.listPackage(from, path) (lp, err)
//@   lnListed = lp
//@   lnErr = err != nil
//@   lnPath = path
//@ hook before mvdan.cc/garble.hashWithPackage(pkg, n)
//@   assert("foreign-names-are-hashed-with-the-package-that-declares-them", pkg == lnListed && !lnErr && pkg.ToObfuscate)
//@   assert("compiler-intrinsics-are-never-renamed", !compilerIntrinsics[pkg.ImportPath][foreignName])
//@   assert("exported-methods-are-never-renamed", !(n == name && n != receiver && token.IsExported(n)))
//@ hook before (*mvdan.cc/garble.listedPackage).obfuscatedImportPath(p)
//@   assert("target-path-is-the-obfuscated-path-of-the-declaring-package", p == lnListed)
//@ hook after (*mvdan.cc/garble.listedPackage).obfuscatedImportPath(p) (r)
//@   lnObfPath = r
//@ end

//@ func (*transformer).transformLinkname
//@   property C01
//@   hooks linkname
//@   requires tf != nil && tf.curPkg != nil && localName != ""
//@   skip safety
//@   may_panic when true
//@   unclaimed hashWithPackage/requires because a linkname target ending in a dot does not compile
//@   unclaimed obfuscatedImportPath/requires because listed packages have non-empty import paths by construction of go list
//@   unclaimed directiveLocalName/requires because go vet and the compiler reject a //go:linkname without a local name
//@   ensures @local-name-follows-the-declaration: r0 == lnLocal
//@   ensures @one-argument-form-stays-one-argument: old(newName) == "" ==> r1 == ""
//@   ensures @names-without-a-package-are-kept: old(newName) != "" && strings.Count(old(newName), ".") < 1 ==> r1 == old(newName)
//@   ensures @runtime-special-symbols-are-kept: old(newName) == "main.main" || old(newName) == "main..inittask" || old(newName) == "runtime..inittask" ==> r1 == old(newName)
//@   ensures @only-targets-in-selected-packages-are-rewritten: r1 != old(newName) ==> lnListed != nil && lnListed.ToObfuscate
//@   ensures @rewritten-targets-are-the-obfuscated-package-path-dot-the-new-name: r1 != old(newName) ==> r1 == lnObfPath + "." + newForeignName
//@ end

//@ hookset directives
//@ hook before (*mvdan.cc/garble.transformer).transformLinkname(t, l, n)
//@   assert("linkname-arguments-are-the-directive-fields", l == fields[1] && n == ite(len(fields) == 3, fields[2], ""))
//@   assert("runtime-module-data-hooks-are-refused", n != "runtime.lastmoduledatap" && n != "runtime.moduledataverify1")
//@ hook before (*mvdan.cc/garble.transformer).directiveLocalName(t, l)
//@   assert("cgo-import-names-of-this-package-follow-the-declaration", fields[1] == tf.curPkg.ImportPath + "." + l)
//@ end

//@ func (*transformer).transformDirectives
//@   property C01
//@   hooks directives
//@   requires tf != nil && tf.curPkg != nil
//@   skip safety
//@   may_panic when true
//@   unclaimed transformLinkname/requires because a //go:linkname without a local name does not compile
//@   unclaimed directiveLocalName/requires because an empty cgo import name is not produced by cmd/cgo
//@   unclaimed obfuscatedImportPath/requires because listed packages have non-empty import paths by construction of go list
//@ end

// ---- C06/C12: where the per-package garble action id and the tool id come from ----

//@ ghost decodedFrom string
//@ ghost decodedRef ref
//@ ghost toolSum string
//@ ghost toolEncoded string

//@ hookset buildids
//@ hook before mvdan.cc/garble.decodeBuildIDHash(s)
//@   decodedFrom = s
//@ hook after mvdan.cc/garble.decodeBuildIDHash(s) (r)
//@   decodedRef = ref(r)
//@ end

//@ hookset pkgactionid
//@ hook before mvdan.cc/garble.addGarbleToHash(in)
//@   assert("[C06,C12] garble-action-id-is-derived-from-the-go-action-id-of-the-package", ref(in) == decodedRef && decodedFrom == pkg.BuildID[:strings.Index(pkg.BuildID, "/")])
//@ end

//@ hookset toolid
//@ hook before mvdan.cc/garble.addGarbleToHash(in)
//@   assert("release-tool-id-is-the-whole-version-line", f[2] != "devel" ==> str(in) == line)
//@   assert("devel-tool-id-is-the-content-id-of-the-tool", f[2] == "devel" ==> ref(in) == decodedRef && decodedFrom == f[len(f)-1][strings.LastIndex(f[len(f)-1], "/")+1:])
//@ hook after mvdan.cc/garble.addGarbleToHash(in) (out)
//@   toolSum = str(out[:])
//@ hook before mvdan.cc/garble.encodeBuildIDHash(h)
//@   assert("reported-content-id-is-the-garble-hash-of-the-tool-id", str(h[:]) == toolSum)
//@ hook after mvdan.cc/garble.encodeBuildIDHash(h) (r)
//@   toolEncoded = r
//@ hook before fmt.Printf(format, a0, a1)
//@   assert("version-line-ends-with-the-garble-content-id", format == "%s +garble buildID=_/_/_/%s\n" && a0 == line && a1 == toolEncoded)
//@ end

//@ func encodeBuildIDHash
//@   property C06
//@   assigns nothing
//@   ensures @first-fifteen-bytes-url-encoded: r0 == base64.RawURLEncoding.EncodeToString(h[:15])
//@ end

//@ func alterToolVersion
//@   property C06
//@   hooks buildids toolid
//@   skip safety
//@   may_panic when true
//@   unclaimed addGarbleToHash/requires because the shared cache is loaded by the caller before any tool is wrapped
//@ end

// ---- C15/C13: fields are tied to the struct of their origin (uninstantiated) type ----

//@ func recordFieldToStruct
//@   property C15 C13
//@   trusted recursion over go/types with a visited set; only the coverage of its type switch is an obligation here
//@   case_calls *types.Alias: !Rhs, !recordFieldToStruct
//@   case_calls *types.Named: !Origin, !Underlying, !recordFieldToStruct
//@   case_calls *types.Struct: !Fields, !Origin, !Embedded, Type, recordFieldToStruct, panic, Sprintf
//@ end

// ---- C01: names in assembly files are rewritten with the same hashes as the Go code ----
// The scans that delimit a package path and a name accept exactly letters, digits and '_' (and '∕' for
// paths, '·' inside a dotted path): each scan continues only over such runes and stops at the first
// rune outside the class. The package is looked up from the package being assembled, its path is
// replaced only if it is selected for obfuscation, and the name is hashed with that package unless it is
// a compiler intrinsic.

//@ ghost backRune int
//@ ghost fwdRune int
//@ ghost asmScanned bool
//@ ghost asmListed *listedPackage

//@ hookset asmnames
//@ hook after unicode/utf8.DecodeLastRune(p) (r, n)
//@   backRune = r
//@ hook after unicode/utf8.DecodeRune(p) (r, n)
//@   fwdRune = r
//@ hook before (*bytes.Buffer).WriteRune(b, r)
//@   assert("the-package-path-starts-after-the-first-rune-that-cannot-be-part-of-one", pkgStart < 0 || !(unicode.IsLetter(backRune) || unicode.IsDigit(backRune) || backRune == '_' || backRune == '∕'))
//@   assert("the-middle-dot-is-written-back", r == '·')
//@   asmScanned = true
//@ hook before mvdan.cc/garble.listPackage(from, path)
//@   assert("qualified-names-are-resolved-from-the-package-being-assembled", from == tf.curPkg)
//@   assert("assembly-spelling-of-the-path-is-converted-to-the-go-spelling", path == strings.ReplaceAll(strings.ReplaceAll(asmPkgPath, "·", "."), "∕", "/"))
//@ hook after mvdan.cc/garble.listPackage(from, path) (lp, err)
//@   asmListed = lp
//@ hook before (*mvdan.cc/garble.listedPackage).obfuscatedImportPath(p)
//@   assert("path-is-replaced-only-for-selected-packages-by-their-obfuscated-path", p == lpkg && lpkg.ToObfuscate)
//@ hook before mvdan.cc/garble.hashWithPackage(pkg, n)
//@   assert("names-are-hashed-with-the-package-that-declares-them-unless-intrinsic", pkg == lpkg && lpkg.ToObfuscate && !compilerIntrinsics[lpkg.ImportPath][n] && n == name)
//@ end

//@ func (*transformer).replaceAsmNames
//@   property C01
//@   hooks asmnames
//@   requires tf != nil && tf.curPkg != nil && !asmScanned
//@   skip safety
//@   may_panic when true
//@   unclaimed hashWithPackage/requires because an empty name after a middle dot does not assemble
//@   unclaimed obfuscatedImportPath/requires because listed packages have non-empty import paths by construction of go list
//@   loop 0
//@     invariant @a-name-ends-at-the-first-rune-that-cannot-be-part-of-an-identifier: asmScanned && len(remaining) > 0 ==> !(unicode.IsLetter(fwdRune) || unicode.IsDigit(fwdRune) || fwdRune == '_')
//@     invariant tf.curPkg != nil
//@   loop 1
//@     invariant @the-backward-scan-only-crosses-path-runes: pkgStart < periodIdx ==> unicode.IsLetter(backRune) || unicode.IsDigit(backRune) || backRune == '_' || backRune == '∕'
//@   loop 2
//@     invariant @the-forward-scan-only-crosses-path-runes-and-middle-dots: i > pkgEnd + asmPeriodLen ==> fwdRune == '·' || unicode.IsLetter(fwdRune) || unicode.IsDigit(fwdRune) || fwdRune == '_' || fwdRune == '∕'
//@   loop 3
//@     invariant @the-name-scan-only-crosses-identifier-runes: nameEnd > 0 ==> unicode.IsLetter(fwdRune) || unicode.IsDigit(fwdRune) || fwdRune == '_'
//@ end

// ---- C05/C09: which variables are exempt from literal obfuscation because -ldflags=-X targets them ----

//@ hookset linkervars
//@ hook before (*go/types.Scope).Lookup(sc, n)
//@   assert("only-variables-of-the-package-the-flag-names-are-exempt", path == pkg.Path() || (path == "main" && pkg.Name() == "main"))
//@   assert("the-flag-is-split-at-the-first-equals-and-the-last-dot", val == fullName + "=" + stringValue && !strings.Contains(fullName, "=") && path == fullName[:strings.LastIndexByte(fullName, '.')] && n == fullName[strings.LastIndexByte(fullName, '.')+1:])
//@ hook before mvdan.cc/garble.flagValue(f, n)
//@   assert("the-flags-are-the-ones-the-user-gave-to-the-go-command", n == "-ldflags" && ref(f) == ref(sharedCache.ForwardBuildFlags))
//@ end

//@ func computeLinkerVariableStrings
//@   property C05 C09
//@   hooks linkervars
//@   requires pkg != nil && sharedCache != nil
//@   skip safety
//@ end

// ---- C01/C02/C03/C09/C10/C12: the compile step: every file goes through every stage, in order ----

//@ stable C01 C02 C05 C09 C10: flagLiterals flagTiny

//@ ghost tcDirIter int
//@ ghost tcImportPath string
//@ ghost tcGoFile ref
//@ ghost tcPrinted ref
//@ ghost tcPatched ref
//@ ghost tcPkgName string
//@ ghost tcPkgPath string
//@ ghost tcLinkerVars bool
//@ ghost tcTrimmed bool
//@ ghost tcCfg string
//@ ghost tcAsmSaved bool

//@ hookset compile
//@ hook before math/rand.NewSource(seed)
//@   assert("[C03] generator-is-seeded-from-the-user-seed-when-there-is-one", len(flagSeed.bytes) == 0 || ref(randSeed) == ref(flagSeed.bytes))
//@   assert("[C03] generator-seed-is-the-first-eight-bytes", seed == int64(binary.BigEndian.Uint64(randSeed)))
//@ hook before mvdan.cc/garble.computeLinkerVariableStrings(p)
//@   assert("[C05,C09] linker-variables-are-computed-for-the-package-being-compiled", p == tf.pkg)
//@   tcLinkerVars = true
//@ hook before (*mvdan.cc/garble.transformer).saveGoAsmNames(t)
//@   assert("[C01] assembly-names-are-saved-only-for-selected-packages-with-assembly", len(tf.curPkg.SFiles) > 0 && tf.curPkg.ToObfuscate)
//@   tcAsmSaved = true
//@ hook after mvdan.cc/garble.alterTrimpath(f) (r)
//@   tcTrimmed = true
//@ hook after (*mvdan.cc/garble.transformer).processImportCfg(t, f, req) (cfg, err)
//@   assert("[C02] import-config-is-built-after-the-temp-dir-is-trimmed", tcTrimmed)
//@   tcCfg = cfg
//@ hook after (*mvdan.cc/garble.listedPackage).obfuscatedImportPath(p) (r)
//@   tcPkgPath = r
//@ hook before mvdan.cc/garble.flagSetValue(f, n, v)
//@   assert("[C01,C02] only-the-package-path-and-the-import-config-are-replaced", n == "-p" || n == "-importcfg")
//@   if n == "-p" { assert("[C01,C02] compiler-is-told-the-obfuscated-package-path", v == tcPkgPath) }
//@   if n == "-importcfg" { assert("[C01,C02] compiler-reads-the-rewritten-import-config", v == tcCfg && v == newImportCfg) }
//@ hook before mvdan.cc/garble.stripRuntime(b, f)
//@   assert("[C10] runtime-is-stripped-only-under-tiny", tf.curPkg.ImportPath == "runtime" && flagTiny)
//@ hook after path/filepath.Base(p) (r)
//@   tcImportPath = tf.curPkg.ImportPath
//@ hook before mvdan.cc/garble.updateEntryOffset(f, k)
//@   assert("[C12] entry-offset-key-is-patched-into-runtime-symtab", tcImportPath == "runtime" && basename == "symtab.go")
//@ hook before mvdan.cc/garble.updateMagicValue(f, k)
//@   assert("[C12] magic-value-is-patched-into-abi-symtab", tcImportPath == "internal/abi" && basename == "symtab.go")
//@ hook before (*mvdan.cc/garble.transformer).transformDirectives(t, c)
//@   assert("[C01] directives-rewritten-are-those-of-the-file-being-compiled", ref(c) == ref(file.Comments) && len(c) == len(file.Comments))
//@   tcDirIter = i
//@ hook before (*mvdan.cc/garble.transformer).transformGoFile(t, f)
//@   assert("[C01] directives-of-the-file-are-rewritten-before-its-identifiers", tcDirIter == i && f == file)
//@ hook after (*mvdan.cc/garble.transformer).transformGoFile(t, f) (r)
//@   tcGoFile = r
//@ hook after (*mvdan.cc/garble.listedPackage).obfuscatedPackageName(p) (r)
//@   tcPkgName = r
//@ hook before mvdan.cc/garble.printFile(lp, f)
//@   assert("[C01,C02] the-file-printed-is-the-transformed-one-under-the-obfuscated-package-name", lp == tf.curPkg && f == tcGoFile && f.Name.Name == tcPkgName)
//@ hook after mvdan.cc/garble.printFile(lp, f) (src, err)
//@   tcPrinted = ref(src)
//@   tcPatched = ref(src)
//@ hook after mvdan.cc/garble.reflectMainPostPatch(s, lp, c) (r)
//@   tcPatched = ref(r)
//@ hook before (*mvdan.cc/garble.transformer).writeSourceFile(t, b, o, content)
//@   assert("[C01,C02] what-the-compiler-reads-is-what-was-printed", ref(content) == tcPrinted || ref(content) == tcPatched)
//@ end

//@ func (*listedPackage).hasDep
//@   pure
//@   trusted membership test in the (lazily built) set of transitive dependencies
//@ end

//@ ghost srWalks int

//@ hookset stripwalk
//@ hook before go/ast.Inspect(n, f)
//@   assert("[C10] print-redirection-walks-the-whole-file-methods-included", n == file)
//@   srWalks = srWalks + 1
//@ end

// The rule table (which functions are emptied) is checked by the ground obligations of C10 against
// the runtime sources; here: outside print.go the print/println redirection walks the whole file.
//@ func stripRuntime
//@   property C10
//@   hooks stripwalk
//@   skip safety call-requires
//@   maxpaths 6000
//@   assigns *, ghost srWalks
//@   ensures @prints-are-redirected-in-every-file-but-print.go: srWalks == old(srWalks) + ite(basename != "print.go", 1, 0)
//@ end

//@ hookset rtpatchentry
//@ hook before strconv.FormatUint(v, b)
//@   assert("[C12] the-number-written-into-the-source-is-the-key-in-decimal", v == uint64(entryOffKey) && b == 10)
//@ end

//@ hookset rtpatchmagic
//@ hook before strconv.FormatUint(v, b)
//@   assert("[C12] the-number-written-into-the-source-is-the-magic-value-in-decimal", v == uint64(magicValue) && b == 10)
//@ end

//@ hookset entrywalk
//@ hook before go/ast.Inspect(n, f)
//@   assert("[C12] decryption-is-injected-into-the-function-named-entry", n == entryFunc && entryFunc != nil)
//@ end

//@ func updateEntryOffset
//@   property C12
//@   hooks entrywalk
//@   skip safety call-requires
//@   may_panic when true
//@   assigns *
//@   ensures @entry-offset-decryption-is-injected-or-the-build-stops: entryOffUpdated
//@ end

//@ func updateEntryOffset#updateEntryOff
//@   property C12
//@   hooks rtpatchentry
//@   skip safety call-requires
//@   assigns *
//@ end

//@ func updateMagicValue
//@   property C12
//@   hooks rtpatchmagic
//@   skip safety call-requires
//@   may_panic when true
//@   assigns *
//@   ensures @the-magic-constant-is-replaced-or-the-build-stops: magicUpdated
//@ end

//@ func (*transformer).transformCompile
//@   property C01 C02 C03 C05 C09 C10 C12
//@   hooks compile
//@   requires tf != nil && tf.curPkg != nil && !tcLinkerVars && !tcTrimmed && !tcAsmSaved && tcDirIter == -1
//@   skip safety call-requires
//@   maxpaths 6000
//@   may_panic when true
//@   ensures @linker-variables-are-known-whenever-literals-are-obfuscated: [C05,C09] r1 == nil && flagLiterals ==> tcLinkerVars
//@ end

// ---- C19/C06/C07: the -debugdir artifacts kept in the cache ----

//@ hookset dbgkey
//@ hook before mvdan.cc/garble.debugArtifactsCacheID(id, k)
//@   assert("[C06,C07,C19] debug-artifacts-are-keyed-by-the-garble-action-id-of-the-package-and-the-kind", str(id[:]) == str(lpkg.GarbleActionID[:]) && k == kind)
//@ end

//@ func (cachedDebugArtifacts).empty
//@   pure
//@   trusted both maps are empty

//@ func saveDebugArtifactsForPkg
//@   property C19 C06
//@   hooks dbgkey
//@   requires lpkg != nil
//@   skip safety call-requires
//@ end

//@ ghost dbgLast *listedPackage
//@ ghost dbgCompileDone bool
//@ ghost dbgMissing bool

//@ hookset dbgrestore
//@ hook before mvdan.cc/garble.restoreDebugArtifactsForPkg(c, lp, k)
//@   assert("every-listed-package-with-an-action-id-is-restored", lp == lpkg && len(lp.GarbleActionID) != 0)
//@   if k == debugCacheKindAsm { assert("compiled-and-assembly-artifacts-are-both-restored", dbgCompileDone && dbgLast == lp) }
//@   if k == debugCacheKindCompile { dbgLast = lp }
//@   if k == debugCacheKindCompile { dbgCompileDone = true }
//@   assert("only-the-two-artifact-kinds-exist", k == debugCacheKindCompile || k == debugCacheKindAsm)
//@ end

//@ func restoreDebugDirFromCache
//@   property C19
//@   hooks dbgrestore
//@   skip safety call-requires
//@   loop 1
//@     iter dbgCompileDone = false
//@ end

//@ hookset dbgneeds
//@ hook before mvdan.cc/garble.debugArtifactsExistForPkg(c, lp, k)
//@   assert("artifacts-are-looked-up-for-the-package-and-kind-that-has-inputs", lp == lpkg && ((k == debugCacheKindCompile && len(lp.CompiledGoFiles) > 0) || (k == debugCacheKindAsm && len(lp.SFiles) > 0)))
//@ hook after mvdan.cc/garble.debugArtifactsExistForPkg(c, lp, k) (r)
//@   if !r { dbgMissing = true }
//@ end

//@ func debugDirNeedsRebuild
//@   property C19
//@   hooks dbgneeds
//@   requires !dbgMissing
//@   skip safety call-requires
//@   ensures @a-missing-artifact-forces-a-full-rebuild: r1 == nil && dbgMissing ==> r0
//@   loop 0
//@     invariant dbgMissing ==> missingArtifacts && sawBuildInputs
//@ end
