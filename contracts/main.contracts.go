//go:build verif

// Contracts for package main, read by /verif/bin/govc. This file contains only
// comments; with the build tag off it is not part of any build.
package main

//@ ghost wr map[ref]int

//@ hookset hasher
//@ hook after (hash.Hash).Reset(h)
//@   wr[h] = spec.HEmpty()
//@ hook after (hash.Hash).Write(h, p) (n, err)
//@   wr[h] = spec.HWrite(wr[h], p)
//@ hook after io.WriteString(w, s) (n, err)
//@   wr[w] = spec.HWriteS(wr[w], s)
//@ end

//@ func hashWithCustomSalt
//@   property C16 C12 C03
//@   spec chars.smt2 hashstate.smt2
//@   hooks hasher
//@   requires len(salt) > 0 && name != ""
//@   requires spec.IsURLNoPad(nameBase64)
//@   assigns sumBuffer, b64NameBuffer, ghost wr
//@   ensures @length: 6 <= len(r0) && len(r0) <= 12
//@   ensures @alphabet: forall i int :: 0 <= i && i < len(r0) ==> spec.IdentChar(r0[i])
//@   ensures @first-not-digit: !spec.IsDigit(r0[0])
//@   ensures @export-preserved: token.IsIdentifier(name) ==> (spec.IsUpper(r0[0]) <==> token.IsExported(name))
//@   loop 0
//@     invariant 0 <= i && i <= len(b64Name)
//@     invariant forall j int :: 0 <= j && j < i ==> b64Name[j] != '-'
//@     invariant forall j int :: 0 <= j && j < len(b64Name) ==> spec.B64URL(b64Name[j])
//@     invariant !spec.IsDigit(b64Name[0])
//@ end
