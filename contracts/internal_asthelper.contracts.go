//go:build verif

// Contracts for package asthelper, read by /verif/bin/govc. Comments only.
package asthelper

//@ func LambdaCall
//@   inline

//@ func CallExprByName
//@   inline

//@ func IndexExpr
//@   inline

//@ func IntLit
//@   inline

//@ func ByteSliceType
//@   inline

//@ func ArrayType
//@   inline

//@ func DataToArray
//@   trusted builds the composite literal [...]byte{...} listing the given bytes; creates nodes only
//@   assigns nothing
//@ end

//@ func DataToByteSlice
//@   trusted builds []byte("...") from the given bytes; creates nodes only
//@   assigns nothing
//@ end
