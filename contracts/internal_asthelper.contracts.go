//go:build verif

// Contracts for package asthelper, read by /verif/bin/govc. Comments only.
package asthelper

//@ func LambdaCall
//@   inline

//@ func CallExprByName
//@   inline

//@ func IndexExpr
//@   inline

//@ func IntLit
//@   inline

//@ func ByteSliceType
//@   inline

//@ func ArrayType
//@   inline
