//go:build verif

// Contracts for package linker, read by /verif/bin/govc. Comments only.
package linker

// Ghost typestate of one PatchLinker call (C07, C17, C18).
//@ ghost lockHeld bool
//@ ghost everLocked bool
//@ ghost unlocks int
//@ ghost acquired ref
//@ ghost built bool
//@ ghost stamped bool
//@ ghost versionOK bool
//@ ghost fileThere bool
//@ ghost linkComplete bool
//@ ghost patchHash string
//@ ghost lastRead string
//@ ghost lastReadPath string
//@ ghost lastWrite string
//@ ghost lastWritePath string

//@ hookset linker
//@ hook after (*github.com/rogpeppe/go-internal/lockedfile.Mutex).Lock(m) (u, err)
//@   if err == nil { lockHeld = true; everLocked = true; acquired = u }
//@ hook before var:unlock()
//@   assert("unlock-only-while-held", lockHeld)
//@   lockHeld = false
//@   unlocks++
//@ hook after mvdan.cc/garble/internal/linker.loadLinkerPatches(mv) (ver, mod, pat, err)
//@   patchHash = ver
//@ hook before mvdan.cc/garble/internal/linker.loadLinkerPatches(mv)
//@   assert("[C06] patches-are-those-of-this-go-release", mv == version.Lang(goVersion))
//@ hook before mvdan.cc/garble/internal/linker.checkVersion(p, gv, pv)
//@   assert("version-check-under-lock", lockHeld)
//@   assert("[C06] cached-linker-is-checked-against-this-go-version-and-these-patches", p == outputLinkPath && gv == goVersion && pv == patchHash)
//@ hook after mvdan.cc/garble/internal/linker.checkVersion(p, gv, pv) (ok, err)
//@   versionOK = ok && err == nil
//@ hook before mvdan.cc/garble/internal/linker.fileExists(p)
//@   assert("existence-check-under-lock", lockHeld)
//@ hook after mvdan.cc/garble/internal/linker.fileExists(p) (r)
//@   fileThere = r
//@ hook before mvdan.cc/garble/internal/linker.applyPatches(a, b, c, d)
//@   assert("patching-under-lock", lockHeld)
//@ hook before mvdan.cc/garble/internal/linker.buildLinker(a, b, c, d)
//@   assert("[C06,C17] linker-is-built-at-the-cached-path-the-lock-protects", d == outputLinkPath)
//@   assert("build-under-lock", lockHeld)
//@   linkComplete = false
//@ hook after mvdan.cc/garble/internal/linker.buildLinker(a, b, c, d) (err)
//@   if err == nil { built = true; linkComplete = true }
//@ hook before mvdan.cc/garble/internal/linker.writeVersion(p, gv, pv)
//@   assert("[C06] stamp-records-this-go-version-and-these-patches-for-the-linker-just-built", p == outputLinkPath && gv == goVersion && pv == patchHash)
//@   assert("stamp-under-lock", lockHeld)
//@   assert("stamp-only-after-successful-build", built)
//@ hook after mvdan.cc/garble/internal/linker.writeVersion(p, gv, pv) (err)
//@   if err == nil { stamped = true }
//@ end

//@ ghost statPath string
//@ ghost statOK bool
//@ ghost statSize int

//@ hookset files
//@ hook after os.Stat(name) (fi, err)
//@   statPath = name
//@   statOK = err == nil
//@ hook after (io/fs.FileInfo).Size(fi) (n)
//@   statSize = n
//@ hook after os.ReadFile(name) (data, err)
//@   lastReadPath = name
//@   lastRead = str(data)
//@ hook before os.WriteFile(name, data, perm)
//@   lastWritePath = name
//@   lastWrite = str(data)
//@ end

//@ func PatchLinker
//@   property C07 C17 C18 C06
//@   hooks linker
//@   requires !lockHeld && !everLocked && unlocks == 0 && !built && !stamped
//@   ensures @success-keeps-the-lock-for-the-caller: r2 == nil ==> lockHeld && unlocks == 0 && r1 == acquired
//@   ensures @failure-releases-exactly-once: r2 != nil ==> !lockHeld && (everLocked ==> unlocks == 1) && (!everLocked ==> unlocks == 0)
//@   ensures @reuse-needs-valid-stamp-and-file: r2 == nil ==> (built && stamped) || (versionOK && fileThere)
//@   ensures @returned-linker-is-complete: [C07] r2 == nil ==> linkComplete
//@ end

//@ func checkVersion
//@   property C06 C07
//@   hooks files
//@   ensures @true-only-if-stamp-matches: r0 ==> r1 == nil && lastReadPath == linkerPath+".version" && lastRead == goVersion+" "+patchesVer+"\n"
//@   ensures @missing-stamp-is-a-miss-not-an-error: r1 != nil ==> !r0
//@ end

//@ func writeVersion
//@   property C06 C18
//@   hooks files
//@   ensures @stamp-content: lastWritePath == linkerPath+".version" && lastWrite == goVersion+" "+patchesVer+"\n"
//@ end

//@ func fileExists
//@   property C07
//@   ensures @false-on-error: true
//@ end

//@ func getCurrentVersion
//@   inline
