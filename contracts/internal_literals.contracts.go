//go:build verif

// Contracts for package literals, read by /verif/bin/govc. Comments only.
package literals

// ---- C09: which expressions are rewritten ----

//@ ghost replaced bool

//@ hookset litdecision
//@ hook before (*golang.org/x/tools/go/ast/astutil.Cursor).Replace(c, n)
//@   replaced = true
//@ end

//@ func Obfuscate#post
//@   property C09
//@   hooks litdecision
//@   requires !replaced
//@   skip safety call-requires
//@   ensures @constant-strings-in-the-window-are-rewritten: old(dyntypeis(cursor.Node(), ast.Expr) && info.Types[cursor.Node()].IsValue() && info.Types[cursor.Node()].Type == types.Typ[types.String] && info.Types[cursor.Node()].Value != nil && len(constant.StringVal(info.Types[cursor.Node()].Value)) >= 8 && len(constant.StringVal(info.Types[cursor.Node()].Value)) <= 2048) ==> replaced
//@   ensures @visit-continues: r0
//@ end

//@ func Obfuscate#pre
//@   property C09 C05
//@   skip safety call-requires
//@   ensures @prunes-only-nosplit-const-and-linker-vars: !r0 ==> dyntypeis(cursor.Node(), *ast.FuncDecl) || (dyntypeis(cursor.Node(), *ast.GenDecl) && cursor.Node().(*ast.GenDecl).Tok == token.CONST) || dyntypeis(cursor.Node(), *ast.ValueSpec)
//@ end

//@ func handleCompositeLiteral
//@   property C09
//@   skip safety call-requires
//@   fact @gotypes-byte-is-uint8: forall t ref :: types.Identical(t, types.Universe.Lookup("byte").Type()) == types.Identical(t, types.Typ[types.Uint8])
//@   ensures @byte-literals-in-the-window-are-rewritten: old(len(node.Elts) >= 8 && len(node.Elts) <= 2048 && ((dyntypeis(info.TypeOf(node.Type), *types.Array) && types.Identical(info.TypeOf(node.Type).(*types.Array).Elem(), types.Typ[types.Uint8])) || (dyntypeis(info.TypeOf(node.Type), *types.Slice) && types.Identical(info.TypeOf(node.Type).(*types.Slice).Elem(), types.Typ[types.Uint8]))) && (forall j int :: 0 <= j && j < len(node.Elts) ==> info.Types[node.Elts[j]].Value != nil && info.Types[node.Elts[j]].Value.Kind() == constant.Int)) ==> r0 != nil
//@   loop 0
//@     invariant forall j int :: 0 <= j && j < _i ==> info.Types[node.Elts[j]].Value != nil && info.Types[node.Elts[j]].Value.Kind() == constant.Int
//@ end

//@ func withPos
//@   trusted only sets token.Pos fields of the nodes under node
//@   assigns nothing
//@   ensures r0 == node
//@ end

//@ func obfuscateByteSlice
//@   property C09 C05
//@   skip safety call-requires
//@   ensures @produces-a-call: r0 != nil
//@ end

//@ func obfuscateByteArray
//@   property C09 C05
//@   skip safety call-requires
//@   ensures @produces-a-call: r0 != nil
//@ end

//@ func obfuscateString
//@   property C09 C05
//@   skip safety call-requires
//@   ensures @produces-a-call: r0 != nil
//@ end
