//go:build verif

// Contracts for package literals, read by /verif/bin/govc. Comments only.
package literals

// ---- C09: which expressions are rewritten ----

//@ ghost replaced bool

//@ hookset litdecision
//@ hook before (*golang.org/x/tools/go/ast/astutil.Cursor).Replace(c, n)
//@   replaced = true
//@ hook before mvdan.cc/garble/internal/literals.obfuscateString(o, v)
//@   assert("[C05] the-whole-constant-value-is-what-is-obfuscated", v == constant.StringVal(typeAndValue.Value))
//@ hook before mvdan.cc/garble/internal/literals.handleCompositeLiteral(o, isPtr, lit, inf)
//@   assert("[C05] address-of-a-literal-is-rebuilt-as-a-pointer-and-a-plain-literal-as-a-value", (isPtr ==> dyntypeis(cursor.Node(), *ast.UnaryExpr) && cursor.Node().(*ast.UnaryExpr).Op == token.AND && lit == cursor.Node().(*ast.UnaryExpr).X) && (!isPtr ==> lit == cursor.Node()))
//@ end

//@ func Obfuscate#post
//@   property C09 C05
//@   hooks litdecision
//@   requires !replaced
//@   skip safety call-requires
//@   ensures @constant-strings-in-the-window-are-rewritten: old(dyntypeis(cursor.Node(), ast.Expr) && info.Types[cursor.Node()].IsValue() && info.Types[cursor.Node()].Type == types.Typ[types.String] && info.Types[cursor.Node()].Value != nil && len(constant.StringVal(info.Types[cursor.Node()].Value)) >= 8 && len(constant.StringVal(info.Types[cursor.Node()].Value)) <= 2048) ==> replaced
//@   ensures @visit-continues: r0
//@ end

//@ func Obfuscate#pre
//@   property C09 C05
//@   skip safety call-requires
//@   ensures @prunes-only-nosplit-const-and-linker-vars: !r0 ==> dyntypeis(cursor.Node(), *ast.FuncDecl) || (dyntypeis(cursor.Node(), *ast.GenDecl) && cursor.Node().(*ast.GenDecl).Tok == token.CONST) || dyntypeis(cursor.Node(), *ast.ValueSpec)
//@   ensures @nosplit-functions-are-left-alone: [C05] dyntypeis(cursor.Node(), *ast.FuncDecl) && cursor.Node().(*ast.FuncDecl).Doc != nil && (exists k int :: 0 <= k && k < len(cursor.Node().(*ast.FuncDecl).Doc.List) && strings.HasPrefix(cursor.Node().(*ast.FuncDecl).Doc.List[k].Text, "//go:nosplit")) ==> !r0
//@   ensures @constant-declarations-are-left-alone: [C05] dyntypeis(cursor.Node(), *ast.GenDecl) && cursor.Node().(*ast.GenDecl).Tok == token.CONST ==> !r0
//@   loop 0
//@     invariant forall j int :: 0 <= j && j < _i ==> !strings.HasPrefix(node.Doc.List[j].Text, "//go:nosplit")
//@ end

//@ ghost elemVal int
//@ ghost typeLen int

//@ hookset complit
//@ hook after go/constant.Uint64Val(v) (x, ok)
//@   assert("[C05] byte-value-is-read-from-the-constant-of-that-element", v == elType.Value)
//@   elemVal = x
//@ hook after (*go/types.Array).Len(a) (n)
//@   typeLen = n
//@ hook before mvdan.cc/garble/internal/literals.obfuscateByteArray(o, p, d, l)
//@   assert("[C05] array-literal-is-rebuilt-with-its-pointerness-its-bytes-and-its-declared-length", p == isPointer && ref(d) == ref(data) && len(d) == len(node.Elts) && l == typeLen && l == arrayLen)
//@ hook before mvdan.cc/garble/internal/literals.obfuscateByteSlice(o, p, d)
//@   assert("[C05] slice-literal-is-rebuilt-with-its-pointerness-and-its-bytes", p == isPointer && ref(d) == ref(data) && len(d) == len(node.Elts))
//@ end

//@ func handleCompositeLiteral
//@   property C09 C05
//@   hooks complit
//@   skip safety call-requires
//@   fact @gotypes-byte-is-uint8: forall t ref :: types.Identical(t, types.Universe.Lookup("byte").Type()) == types.Identical(t, types.Typ[types.Uint8])
//@   ensures @byte-literals-in-the-window-are-rewritten: old(len(node.Elts) >= 8 && len(node.Elts) <= 2048 && ((dyntypeis(info.TypeOf(node.Type), *types.Array) && types.Identical(info.TypeOf(node.Type).(*types.Array).Elem(), types.Typ[types.Uint8])) || (dyntypeis(info.TypeOf(node.Type), *types.Slice) && types.Identical(info.TypeOf(node.Type).(*types.Slice).Elem(), types.Typ[types.Uint8]))) && (forall j int :: 0 <= j && j < len(node.Elts) ==> info.Types[node.Elts[j]].Value != nil && info.Types[node.Elts[j]].Value.Kind() == constant.Int)) ==> r0 != nil
//@   loop 0
//@     invariant forall j int :: 0 <= j && j < _i ==> info.Types[node.Elts[j]].Value != nil && info.Types[node.Elts[j]].Value.Kind() == constant.Int
//@     invariant @one-byte-per-listed-element-in-order: [C05] len(data) == _i && (_i >= 1 ==> data[_i-1] == byte(elemVal))
//@ end

//@ func withPos
//@   trusted only sets token.Pos fields of the nodes under node
//@   assigns nothing
//@   ensures r0 == node
//@ end

//@ func obfuscateByteSlice
//@   property C09 C05
//@   skip safety call-requires
//@   ensures @produces-a-call: r0 != nil
//@   ensures @the-decoded-slice-or-its-address-is-returned: [C05] len(block.List) >= 1 && dyntypeis(block.List[len(block.List)-1], *ast.ReturnStmt) && len(block.List[len(block.List)-1].(*ast.ReturnStmt).Results) == 1 && (!isPointer ==> block.List[len(block.List)-1].(*ast.ReturnStmt).Results[0].(*ast.Ident).Name == "data") && (isPointer ==> dyntypeis(block.List[len(block.List)-1].(*ast.ReturnStmt).Results[0], *ast.UnaryExpr) && block.List[len(block.List)-1].(*ast.ReturnStmt).Results[0].(*ast.UnaryExpr).Op == token.AND && block.List[len(block.List)-1].(*ast.ReturnStmt).Results[0].(*ast.UnaryExpr).X.(*ast.Ident).Name == "data")
//@   ensures @the-emitted-block-is-the-body-of-the-call: [C05] dyntypeis(r0.Fun, *ast.FuncLit) && r0.Fun.(*ast.FuncLit).Body == block
//@ end

//@ hookset arrays
//@ hook before mvdan.cc/garble/internal/asthelper.ByteArrayType(l)
//@   assert("array-has-the-declared-length-not-the-number-of-listed-elements", l == length)
//@ hook before (*mvdan.cc/garble/internal/literals.obfRand).pickObfuscator(o, size)
//@   assert("obfuscator-is-chosen-for-the-listed-bytes", size == len(data))
//@ end

// The decoded bytes are copied into a zeroed array of the declared length (a literal may list
// fewer elements than the array holds): var newdata [N]byte; for i := range data { newdata[i] = data[i] };
// return newdata (or &newdata).
//@ func obfuscateByteArray
//@   property C09 C05
//@   hooks arrays
//@   skip safety call-requires
//@   ensures @produces-a-call: r0 != nil
//@   ensures @result-array-is-declared-with-the-full-length: [C05] len(block.List) >= 3 && dyntypeis(block.List[len(block.List)-3], *ast.DeclStmt) && dyntypeis(block.List[len(block.List)-3].(*ast.DeclStmt).Decl, *ast.GenDecl) && block.List[len(block.List)-3].(*ast.DeclStmt).Decl.(*ast.GenDecl).Tok == token.VAR && block.List[len(block.List)-3].(*ast.DeclStmt).Decl.(*ast.GenDecl).Specs[0].(*ast.ValueSpec).Names[0].Name == "newdata" && block.List[len(block.List)-3].(*ast.DeclStmt).Decl.(*ast.GenDecl).Specs[0].(*ast.ValueSpec).Type == arrayType
//@   ensures @decoded-bytes-are-copied-one-by-one: [C05] len(block.List) >= 3 && dyntypeis(block.List[len(block.List)-2], *ast.RangeStmt) && block.List[len(block.List)-2].(*ast.RangeStmt).Tok == token.DEFINE && block.List[len(block.List)-2].(*ast.RangeStmt).Key.(*ast.Ident).Name == "i" && isnil(block.List[len(block.List)-2].(*ast.RangeStmt).Value) && block.List[len(block.List)-2].(*ast.RangeStmt).X.(*ast.Ident).Name == "data" && len(block.List[len(block.List)-2].(*ast.RangeStmt).Body.List) == 1 && dyntypeis(block.List[len(block.List)-2].(*ast.RangeStmt).Body.List[0], *ast.AssignStmt)
//@   ensures @copy-goes-from-data-to-newdata-at-the-same-index: [C05] len(block.List) >= 3 && block.List[len(block.List)-2].(*ast.RangeStmt).Body.List[0].(*ast.AssignStmt).Tok == token.ASSIGN && block.List[len(block.List)-2].(*ast.RangeStmt).Body.List[0].(*ast.AssignStmt).Lhs[0].(*ast.IndexExpr).X.(*ast.Ident).Name == "newdata" && block.List[len(block.List)-2].(*ast.RangeStmt).Body.List[0].(*ast.AssignStmt).Lhs[0].(*ast.IndexExpr).Index.(*ast.Ident).Name == "i" && block.List[len(block.List)-2].(*ast.RangeStmt).Body.List[0].(*ast.AssignStmt).Rhs[0].(*ast.IndexExpr).X.(*ast.Ident).Name == "data" && block.List[len(block.List)-2].(*ast.RangeStmt).Body.List[0].(*ast.AssignStmt).Rhs[0].(*ast.IndexExpr).Index.(*ast.Ident).Name == "i"
//@   ensures @the-zero-padded-array-is-what-is-returned: [C05] len(block.List) >= 3 && dyntypeis(block.List[len(block.List)-1], *ast.ReturnStmt) && len(block.List[len(block.List)-1].(*ast.ReturnStmt).Results) == 1 && (!isPointer ==> block.List[len(block.List)-1].(*ast.ReturnStmt).Results[0].(*ast.Ident).Name == "newdata") && (isPointer ==> dyntypeis(block.List[len(block.List)-1].(*ast.ReturnStmt).Results[0], *ast.UnaryExpr) && block.List[len(block.List)-1].(*ast.ReturnStmt).Results[0].(*ast.UnaryExpr).Op == token.AND && block.List[len(block.List)-1].(*ast.ReturnStmt).Results[0].(*ast.UnaryExpr).X.(*ast.Ident).Name == "newdata")
//@   ensures @the-emitted-block-is-the-body-of-the-call: [C05] dyntypeis(r0.Fun, *ast.FuncLit) && r0.Fun.(*ast.FuncLit).Body == block
//@ end

//@ hookset strjunk
//@ hook before (mvdan.cc/garble/internal/literals.obfuscator).obfuscate(ob, r, d, k)
//@   assert("[C05] junk-is-split-inside-its-bounds", 0 <= splitIdx && splitIdx < len(junkBytes))
//@   assert("[C05] the-padded-bytes-are-junk-plus-string", len(d) == len(junkBytes) + len(data))
//@ end

// The string is wrapped in random junk before it is handed to an obfuscator; the emitted cast
// function cuts it out again: string(x[splitIdx : splitIdx+len(data)]). That the bytes handed to the
// obfuscator carry the string at exactly that offset (two nested appends that may or may not reuse the
// junk array) was generated as an obligation but is beyond the solvers (four aliasing cases); it is
// covered by the bounded stand-in only.
//@ func obfuscateString
//@   property C09 C05
//@   hooks strjunk
//@   skip safety call-requires
//@   ensures @produces-a-call: r0 != nil
//@   ensures @emitted-cast-cuts-the-string-out-of-the-junk: [C05] len(funcVal.Body.List) == 1 && dyntypeis(funcVal.Body.List[0], *ast.ReturnStmt) && dyntypeis(funcVal.Body.List[0].(*ast.ReturnStmt).Results[0], *ast.CallExpr) && funcVal.Body.List[0].(*ast.ReturnStmt).Results[0].(*ast.CallExpr).Fun.(*ast.Ident).Name == "string" && dyntypeis(funcVal.Body.List[0].(*ast.ReturnStmt).Results[0].(*ast.CallExpr).Args[0], *ast.SliceExpr) && funcVal.Body.List[0].(*ast.ReturnStmt).Results[0].(*ast.CallExpr).Args[0].(*ast.SliceExpr).X.(*ast.Ident).Name == "x" && funcVal.Body.List[0].(*ast.ReturnStmt).Results[0].(*ast.CallExpr).Args[0].(*ast.SliceExpr).Low.(*ast.BasicLit).Value == strconv.Itoa(splitIdx) && funcVal.Body.List[0].(*ast.ReturnStmt).Results[0].(*ast.CallExpr).Args[0].(*ast.SliceExpr).High.(*ast.BasicLit).Value == strconv.Itoa(splitIdx + len(data)) && !funcVal.Body.List[0].(*ast.ReturnStmt).Results[0].(*ast.CallExpr).Args[0].(*ast.SliceExpr).Slice3
//@   ensures @the-cast-is-applied-to-the-decoded-bytes: [C05] len(block.List) >= 1 && dyntypeis(block.List[len(block.List)-1], *ast.ReturnStmt) && dyntypeis(block.List[len(block.List)-1].(*ast.ReturnStmt).Results[0], *ast.CallExpr) && len(block.List[len(block.List)-1].(*ast.ReturnStmt).Results[0].(*ast.CallExpr).Args) == 1 && block.List[len(block.List)-1].(*ast.ReturnStmt).Results[0].(*ast.CallExpr).Args[0].(*ast.Ident).Name == "data"
//@ end

// ---- C05: encode at obfuscation time / decode in the emitted code ----

//@ func evalOperator
//@   property C05
//@   intmode bv
//@   spec ops.smt2
//@   may_panic when t != token.XOR && t != token.ADD && t != token.SUB
//@   assigns nothing
//@   ensures @computes-the-named-operator: r0 == spec.Eval(t, x, y)
//@ end

//@ func operatorToReversedBinaryExpr
//@   property C05
//@   intmode bv
//@   spec ops.smt2
//@   may_panic when t != token.XOR && t != token.ADD && t != token.SUB
//@   assigns nothing
//@   ensures @emits-the-inverse-operator-on-the-same-operands: r0 != nil && r0.Op == spec.Rev(t) && r0.X == x && r0.Y == y
//@   ensures @the-expression-is-a-new-node: fresh(r0)
//@ end

//@ lemma reversed-operator-inverts
//@   property C05
//@   intmode bv
//@   spec ops.smt2
//@   smt (declare-const t (_ BitVec 64))
//@   smt (declare-const x (_ BitVec 8))
//@   smt (declare-const y (_ BitVec 8))
//@   goal (=> (|spec.IsOp| t) (= (|spec.Eval| (|spec.Rev| t) (|spec.Eval| t x y) y) x))
//@ end

//@ func getIndexType
//@   property C05
//@   pure
//@   spec indextype.smt2
//@   requires 0 <= dataLen
//@   assigns nothing
//@   ensures @every-index-fits-the-type: forall v int64 :: 0 <= v && v < dataLen ==> v <= spec.MaxOf(r0)
//@ end

//@ func generateSwapCount
//@   property C05
//@   requires 1 <= dataLen && dataLen <= 1048576
//@   assigns nothing
//@   ensures @even-and-covers-the-data: r0 % 2 == 0 && dataLen <= r0 && r0 <= dataLen + dataLen/2 + 1
//@ end

//@ func genRandIntSlice
//@   property C05
//@   requires max > 0 && count >= 0
//@   assigns nothing
//@   ensures @count-and-range: len(r0) == count && (forall k int :: 0 <= k && k < count ==> 0 <= r0[k] && r0[k] < max)
//@   loop 0
//@     invariant len(indexes) == count
//@     invariant forall k int :: 0 <= k && k < i ==> 0 <= indexes[k] && indexes[k] < max
//@ end

//@ func randOperator
//@   property C05
//@   spec indextype.smt2
//@   assigns nothing
//@   ensures @one-of-the-invertible-operators: r0 == token.XOR || r0 == token.ADD || r0 == token.SUB
//@ end

//@ ghost pickN int
//@ ghost pickDrawn bool

//@ hookset pick
//@ hook after (*math/rand.Rand).Intn(r, n) (v)
//@   pickN = n
//@   pickDrawn = true
//@ end

//@ func (*obfRand).pickObfuscator
//@   property C05 C09
//@   hooks pick
//@   fact @init-Obfuscators: len(Obfuscators) > 0 && len(CheapObfuscators) > 0
//@   requires or != nil && !pickDrawn
//@   may_panic when size < 8 || size > 2048
//@   assigns ghost pickN, ghost pickDrawn
//@   ensures @the-index-is-drawn-for-the-table-it-indexes: pickDrawn ==> pickN == ite(size <= MaxSizeExpensive, len(Obfuscators), len(CheapObfuscators))
//@ end

// ---- C05: the simple obfuscator: every byte is encoded with the key byte of the same index and
// the operator whose inverse is emitted; the emitted statements are the template
//   key := <key bytes>; data := <encoded bytes>; for i, b := range key { data[i] = data[i] <inverse op> b }
// The meaning of that template (Go's semantics of the three statements) is not formalised here;
// together with the lemma reversed-operator-inverts it yields data[i] == original[i] for all i.

//@ ghost litOf map[ref]string
//@ ghost litPending string

//@ hookset emitbytes
//@ hook before mvdan.cc/garble/internal/literals.dataToByteSliceWithExtKeys(r, d, k)
//@   litPending = str(d)
//@ hook after mvdan.cc/garble/internal/literals.dataToByteSliceWithExtKeys(r, d, k) (e)
//@   litOf[e] = litPending
//@ end

//@ func dataToByteSliceWithExtKeys
//@   property C05
//@   trusted emits a closure that rebuilds, at run time, the bytes data held when the call was made (it scrambles data in place with the external keys and emits the inverse operations in reverse order); its own round trip is covered by the bounded stand-in only; it builds new syntax nodes and writes only the bytes of data and the reference counters of the external keys
//@   assigns elems(data), externalKey.refs
//@   ensures r0 != nil && fresh(r0)
//@ end

//@ func (simple).obfuscate
//@   property C05
//@   intmode bv
//@   spec ops.smt2 indextype.smt2
//@   hooks emitbytes
//@   skip safety call-requires
//@   ensures @three-statements: r0 != nil && len(r0.List) == 3
//@   ensures @first-the-key-then-the-encoded-data: dyntypeis(r0.List[0], *ast.AssignStmt) && r0.List[0].(*ast.AssignStmt).Tok == token.DEFINE && r0.List[0].(*ast.AssignStmt).Lhs[0].(*ast.Ident).Name == "key" && dyntypeis(r0.List[1], *ast.AssignStmt) && r0.List[1].(*ast.AssignStmt).Tok == token.DEFINE && r0.List[1].(*ast.AssignStmt).Lhs[0].(*ast.Ident).Name == "data"
//@   ensures @emitted-data-is-the-original-encoded-bytewise-with-the-emitted-key: len(litOf[r0.List[0].(*ast.AssignStmt).Rhs[0]]) == old(len(data)) && len(litOf[r0.List[1].(*ast.AssignStmt).Rhs[0]]) == old(len(data)) && (forall j int :: 0 <= j && j < old(len(data)) ==> litOf[r0.List[1].(*ast.AssignStmt).Rhs[0]][j] == spec.Eval(op, old(data[j]), litOf[r0.List[0].(*ast.AssignStmt).Rhs[0]][j]))
//@   ensures @decoder-walks-the-key-and-applies-the-inverse-operator-in-place: dyntypeis(r0.List[2], *ast.RangeStmt) && r0.List[2].(*ast.RangeStmt).Tok == token.DEFINE && r0.List[2].(*ast.RangeStmt).Key.(*ast.Ident).Name == "i" && r0.List[2].(*ast.RangeStmt).Value.(*ast.Ident).Name == "b" && r0.List[2].(*ast.RangeStmt).X.(*ast.Ident).Name == "key" && len(r0.List[2].(*ast.RangeStmt).Body.List) == 1 && dyntypeis(r0.List[2].(*ast.RangeStmt).Body.List[0], *ast.AssignStmt) && r0.List[2].(*ast.RangeStmt).Body.List[0].(*ast.AssignStmt).Tok == token.ASSIGN
//@   ensures @decoder-statement-is-data-i-gets-data-i-inverse-op-b: r0.List[2].(*ast.RangeStmt).Body.List[0].(*ast.AssignStmt).Lhs[0].(*ast.IndexExpr).X.(*ast.Ident).Name == "data" && r0.List[2].(*ast.RangeStmt).Body.List[0].(*ast.AssignStmt).Lhs[0].(*ast.IndexExpr).Index.(*ast.Ident).Name == "i" && dyntypeis(r0.List[2].(*ast.RangeStmt).Body.List[0].(*ast.AssignStmt).Rhs[0], *ast.BinaryExpr) && r0.List[2].(*ast.RangeStmt).Body.List[0].(*ast.AssignStmt).Rhs[0].(*ast.BinaryExpr).Op == spec.Rev(op) && r0.List[2].(*ast.RangeStmt).Body.List[0].(*ast.AssignStmt).Rhs[0].(*ast.BinaryExpr).X.(*ast.IndexExpr).X.(*ast.Ident).Name == "data" && r0.List[2].(*ast.RangeStmt).Body.List[0].(*ast.AssignStmt).Rhs[0].(*ast.BinaryExpr).X.(*ast.IndexExpr).Index.(*ast.Ident).Name == "i" && r0.List[2].(*ast.RangeStmt).Body.List[0].(*ast.AssignStmt).Rhs[0].(*ast.BinaryExpr).Y.(*ast.Ident).Name == "b"
//@   loop 0
//@     invariant @encoded-prefix: forall j int :: 0 <= j && j < _i ==> data[j] == spec.Eval(op, old(data[j]), key[j])
//@     invariant @untouched-suffix: forall j int :: _i <= j && j < len(data) ==> data[j] == old(data[j])
//@     invariant @key-is-not-modified: forall j int :: 0 <= j && j < len(key) ==> key[j] == entry(key[j])
//@ end

// ---- C05: a single byte hidden behind an external key evaluates to that byte ----
// den[e] is the byte an emitted expression evaluates to; it is attached where the expression is
// built: a literal denotes its value, byte(x) denotes x, key.ToExpr(b) denotes byte(key.value >> 8b),
// and x <op> y denotes the operator applied to the two denotations (Go's semantics of these four
// shapes, stated once here). byteLitWithExtKey is then proved to return an expression denoting val
// on both of its paths, for every operator, key and shift.

//@ ghost den map[ref]byte

//@ hookset denote
//@ hook after mvdan.cc/garble/internal/asthelper.IntLit(v) (r)
//@   den[r] = byte(v)
//@ hook after mvdan.cc/garble/internal/asthelper.CallExprByName(fun, a0) (r)
//@   if fun == "byte" { den[r] = den[a0] }
//@ hook after (*mvdan.cc/garble/internal/literals.externalKey).ToExpr(k, b) (r)
//@   den[r] = byte(k.value >> (uint(b) * 8))
//@ hook after mvdan.cc/garble/internal/literals.operatorToReversedBinaryExpr(t, x, y) (r)
//@   den[r] = spec.Eval(spec.Rev(t), den[x], den[y])
//@ end

//@ func (*externalKey).ToExpr
//@   property C05
//@   trusted builds byte(<key name> >> 8b); its denotation is attached by the hook above
//@   assigns nothing
//@   ensures r0 != nil && fresh(r0)
//@ end

//@ func (*externalKey).AddRef
//@   inline

//@ func (externalKeyProbability).Try
//@   property C05
//@   trusted draws one float from the seeded generator and compares it with the probability
//@   assigns nothing
//@ end

//@ func byteLitWithExtKey
//@   property C05
//@   intmode bv
//@   spec ops.smt2
//@   hooks denote
//@   requires len(extKeys) > 0 && forall k int :: 0 <= k && k < len(extKeys) ==> extKeys[k] != nil && (extKeys[k].bits == 8 || extKeys[k].bits == 16 || extKeys[k].bits == 32 || extKeys[k].bits == 64)
//@   skip safety
//@   assigns externalKey.refs, ghost den
//@   ensures @emitted-expression-evaluates-to-the-byte: r0 != nil && den[r0] == val
//@ end

// ---- C05: the seed obfuscator ----
// Every byte b is emitted as an argument denoting enc = b <op> seed, after which seed += enc; the
// emitted decoder starts from the same initial seed, appends x <inverse op> seed for every argument x
// in order and advances seed += x. Each iteration is proved to emit exactly that argument and to
// extend the call chain fnc(a0)(a1)... by one call; the meaning of the emitted closure (Go's semantics
// of its three statements) is not formalised, and that earlier links of the chain stay untouched is
// not proved.

//@ func (seed).obfuscate
//@   property C05
//@   intmode bv
//@   spec ops.smt2
//@   hooks denote
//@   requires len(extKeys) > 0 && len(data) > 0
//@   skip safety call-requires
//@   ghost prevSeed byte
//@   ghost prevCall ref
//@   ensures @decoder-starts-from-the-seed-the-encoder-started-from: r0 != nil && len(r0.List) == 6 && dyntypeis(r0.List[0], *ast.AssignStmt) && r0.List[0].(*ast.AssignStmt).Tok == token.DEFINE && r0.List[0].(*ast.AssignStmt).Lhs[0].(*ast.Ident).Name == "seed" && den[r0.List[0].(*ast.AssignStmt).Rhs[0]] == originalSeed
//@   ensures @the-call-chain-is-what-is-executed: dyntypeis(r0.List[5], *ast.ExprStmt) && r0.List[5].(*ast.ExprStmt).X == callExpr
//@   ensures @decoder-appends-x-inverse-op-seed-then-advances-the-seed: dyntypeis(r0.List[4], *ast.AssignStmt) && r0.List[4].(*ast.AssignStmt).Lhs[0].(*ast.Ident).Name == "fnc" && dyntypeis(r0.List[4].(*ast.AssignStmt).Rhs[0], *ast.FuncLit) && len(r0.List[4].(*ast.AssignStmt).Rhs[0].(*ast.FuncLit).Body.List) == 3 && dyntypeis(r0.List[4].(*ast.AssignStmt).Rhs[0].(*ast.FuncLit).Body.List[0], *ast.AssignStmt) && r0.List[4].(*ast.AssignStmt).Rhs[0].(*ast.FuncLit).Body.List[0].(*ast.AssignStmt).Lhs[0].(*ast.Ident).Name == "data" && dyntypeis(r0.List[4].(*ast.AssignStmt).Rhs[0].(*ast.FuncLit).Body.List[0].(*ast.AssignStmt).Rhs[0], *ast.CallExpr) && r0.List[4].(*ast.AssignStmt).Rhs[0].(*ast.FuncLit).Body.List[0].(*ast.AssignStmt).Rhs[0].(*ast.CallExpr).Fun.(*ast.Ident).Name == "append" && r0.List[4].(*ast.AssignStmt).Rhs[0].(*ast.FuncLit).Body.List[0].(*ast.AssignStmt).Rhs[0].(*ast.CallExpr).Args[0].(*ast.Ident).Name == "data" && r0.List[4].(*ast.AssignStmt).Rhs[0].(*ast.FuncLit).Body.List[0].(*ast.AssignStmt).Rhs[0].(*ast.CallExpr).Args[1].(*ast.BinaryExpr).Op == spec.Rev(op) && r0.List[4].(*ast.AssignStmt).Rhs[0].(*ast.FuncLit).Body.List[0].(*ast.AssignStmt).Rhs[0].(*ast.CallExpr).Args[1].(*ast.BinaryExpr).X.(*ast.Ident).Name == "x" && r0.List[4].(*ast.AssignStmt).Rhs[0].(*ast.FuncLit).Body.List[0].(*ast.AssignStmt).Rhs[0].(*ast.CallExpr).Args[1].(*ast.BinaryExpr).Y.(*ast.Ident).Name == "seed"
//@   ensures @decoder-advances-the-seed-by-the-argument: dyntypeis(r0.List[4].(*ast.AssignStmt).Rhs[0].(*ast.FuncLit).Body.List[1], *ast.AssignStmt) && r0.List[4].(*ast.AssignStmt).Rhs[0].(*ast.FuncLit).Body.List[1].(*ast.AssignStmt).Tok == token.ADD_ASSIGN && r0.List[4].(*ast.AssignStmt).Rhs[0].(*ast.FuncLit).Body.List[1].(*ast.AssignStmt).Lhs[0].(*ast.Ident).Name == "seed" && r0.List[4].(*ast.AssignStmt).Rhs[0].(*ast.FuncLit).Body.List[1].(*ast.AssignStmt).Rhs[0].(*ast.Ident).Name == "x"
//@   loop 0
//@     iter prevSeed = seed
//@     iter prevCall = callExpr
//@     invariant @encoder-starts-from-the-emitted-seed: _i == 0 ==> seed == originalSeed
//@     invariant @argument-i-denotes-byte-i-encoded-with-the-running-seed: _i >= 1 ==> callExpr != nil && len(callExpr.Args) == 1 && den[callExpr.Args[0]] == spec.Eval(op, data[_i-1], prevSeed)
//@     invariant @the-running-seed-advances-by-the-emitted-argument: _i >= 1 ==> seed == prevSeed + den[callExpr.Args[0]]
//@     invariant @the-chain-grows-by-one-call: _i >= 2 ==> callExpr.Fun == prevCall
//@     invariant @the-chain-starts-at-fnc: _i == 1 ==> callExpr.Fun.(*ast.Ident).Name == "fnc"
//@     invariant @data-is-only-read: forall j int :: 0 <= j && j < len(data) ==> data[j] == old(data[j])
//@ end

//@ func (*proxyDispatcher).HideValue
//@   property C05
//@   trusted stores the value in one of the proxy structs and returns the selector path that reads it back at run time; it creates nodes and changes only the dispatcher's own bookkeeping
//@   assigns proxyDispatcher.root, proxyDispatcher.flattenStructs, proxyStruct.values, proxyStruct.children, proxyStruct.parent
//@   ensures r0 != nil
//@ end

// ---- C05: the swap obfuscator ----
// Going through the position pairs from the last to the first, the encoder replaces
//   data[p], data[q] = data[q] <op> lk, data[p] <op> lk     with lk = byte(i) + byte(p^q) + shiftKey;
// the emitted loop goes through the same pairs from the first to the last and runs
//   localKey := byte(i) + byte(positions[i]^positions[i+1]) + <shiftKey>
//   data[positions[i]], data[positions[i+1]] = data[positions[i+1]] <inverse op> localKey, data[positions[i]] <inverse op> localKey
// which undoes one encoder step (lemma reversed-operator-inverts; also when p == q, where both sides
// assign the same value twice). Each encoder iteration is proved to perform exactly that step; that the
// emitted steps run in the opposite order over the same pairs is pinned by the loop header (0, +2, < len)
// and the positions literal.

//@ ghost posLit map[ref]int

//@ hookset poslit
//@ hook after mvdan.cc/garble/internal/asthelper.IntLit(v) (r)
//@   posLit[r] = v
//@ hook before mvdan.cc/garble/internal/literals.getIndexType(n)
//@   assert("element-type-is-chosen-for-the-number-of-positions", n == int64(len(data)))
//@ end

//@ func positionsToSlice
//@   property C05
//@   spec indextype.smt2
//@   hooks poslit
//@   skip safety
//@   ensures @one-literal-per-position-in-order: r0 != nil && len(r0.Elts) == len(data)
//@   loop 0
//@     invariant len(arr.Elts) == _i
//@     invariant @literal-k-is-position-k: _i >= 1 ==> posLit[arr.Elts[_i-1]] == data[_i-1]
//@ end

//@ func (swap).obfuscate
//@   property C05
//@   intmode bv
//@   spec ops.smt2
//@   hooks emitbytes denote
//@   requires len(data) >= 1 && len(extKeys) > 0
//@   skip safety call-requires
//@   ghost pa byte
//@   ghost pb byte
//@   ghost pi int
//@   ensures @decoder-loop-visits-the-pairs-from-the-first-to-the-last: r0 != nil && len(r0.List) == 3 && dyntypeis(r0.List[2], *ast.ForStmt) && r0.List[2].(*ast.ForStmt).Init.(*ast.AssignStmt).Lhs[0].(*ast.Ident).Name == "i" && r0.List[2].(*ast.ForStmt).Init.(*ast.AssignStmt).Rhs[0].(*ast.BasicLit).Value == strconv.Itoa(0) && r0.List[2].(*ast.ForStmt).Cond.(*ast.BinaryExpr).Op == token.LSS && r0.List[2].(*ast.ForStmt).Cond.(*ast.BinaryExpr).X.(*ast.Ident).Name == "i" && r0.List[2].(*ast.ForStmt).Cond.(*ast.BinaryExpr).Y.(*ast.BasicLit).Value == strconv.Itoa(len(positions)) && r0.List[2].(*ast.ForStmt).Post.(*ast.AssignStmt).Tok == token.ADD_ASSIGN && r0.List[2].(*ast.ForStmt).Post.(*ast.AssignStmt).Rhs[0].(*ast.BasicLit).Value == strconv.Itoa(2)
//@   ensures @decoder-key-is-byte-i-plus-byte-of-the-xored-positions-plus-the-shift-key: len(r0.List[2].(*ast.ForStmt).Body.List) == 2 && dyntypeis(r0.List[2].(*ast.ForStmt).Body.List[0], *ast.AssignStmt) && r0.List[2].(*ast.ForStmt).Body.List[0].(*ast.AssignStmt).Lhs[0].(*ast.Ident).Name == "localKey" && dyntypeis(r0.List[2].(*ast.ForStmt).Body.List[0].(*ast.AssignStmt).Rhs[0], *ast.BinaryExpr) && r0.List[2].(*ast.ForStmt).Body.List[0].(*ast.AssignStmt).Rhs[0].(*ast.BinaryExpr).Op == token.ADD && den[r0.List[2].(*ast.ForStmt).Body.List[0].(*ast.AssignStmt).Rhs[0].(*ast.BinaryExpr).Y] == shiftKey && r0.List[2].(*ast.ForStmt).Body.List[0].(*ast.AssignStmt).Rhs[0].(*ast.BinaryExpr).X.(*ast.BinaryExpr).Op == token.ADD && r0.List[2].(*ast.ForStmt).Body.List[0].(*ast.AssignStmt).Rhs[0].(*ast.BinaryExpr).X.(*ast.BinaryExpr).Y.(*ast.CallExpr).Args[0].(*ast.BinaryExpr).Op == token.XOR
//@   ensures @decoder-swaps-back-with-the-inverse-operator: dyntypeis(r0.List[2].(*ast.ForStmt).Body.List[1], *ast.AssignStmt) && len(r0.List[2].(*ast.ForStmt).Body.List[1].(*ast.AssignStmt).Lhs) == 2 && len(r0.List[2].(*ast.ForStmt).Body.List[1].(*ast.AssignStmt).Rhs) == 2 && r0.List[2].(*ast.ForStmt).Body.List[1].(*ast.AssignStmt).Tok == token.ASSIGN && r0.List[2].(*ast.ForStmt).Body.List[1].(*ast.AssignStmt).Rhs[0].(*ast.BinaryExpr).Op == spec.Rev(op) && r0.List[2].(*ast.ForStmt).Body.List[1].(*ast.AssignStmt).Rhs[1].(*ast.BinaryExpr).Op == spec.Rev(op) && r0.List[2].(*ast.ForStmt).Body.List[1].(*ast.AssignStmt).Rhs[0].(*ast.BinaryExpr).Y.(*ast.Ident).Name == "localKey" && r0.List[2].(*ast.ForStmt).Body.List[1].(*ast.AssignStmt).Rhs[1].(*ast.BinaryExpr).Y.(*ast.Ident).Name == "localKey"
//@   loop 0
//@     iter pa = data[positions[i]]
//@     iter pb = data[positions[i+1]]
//@     iter pi = i
//@     invariant @each-step-swaps-the-pair-and-encodes-both-with-the-local-key: i + 2 <= len(positions) - 2 && pi == i + 2 ==> data[positions[pi+1]] == spec.Eval(op, pa, byte(pi) + byte(positions[pi]^positions[pi+1]) + shiftKey) && (positions[pi] != positions[pi+1] ==> data[positions[pi]] == spec.Eval(op, pb, byte(pi) + byte(positions[pi]^positions[pi+1]) + shiftKey))
//@     invariant @positions-stay-what-the-decoder-will-be-given: forall k int :: 0 <= k && k < len(positions) ==> positions[k] == entry(positions[k]) && 0 <= positions[k] && positions[k] < len(data)
//@ end

// ---- C05: the split obfuscator (partly) ----
// The bytes are cut into chunks, every byte at global position o is encoded with key ^ byte(o), and the
// emitted state machine appends the chunks in order and then decodes every byte y with the inverse
// operator and byte(decryptKey ^ y). Proved here: each encoding step (encryptChunks); the state machine
// starts at indexes[0], stops at the exit index, the decoding case is indexes[len-2] and jumps to the
// exit, the decoding statement is data[y] = data[y] <inverse op> byte(decryptKey ^ y), and the emitted
// initial key denotes decryptKeyInitial. Not proved: the chunk cases (their statements are shuffled) and
// that the key folded here equals the key the emitted loop folds (i * counter over the visited cases).

//@ func encryptChunks
//@   property C05
//@   intmode bv
//@   spec ops.smt2
//@   skip safety
//@   ghost prevByte byte
//@   loop 1
//@     iter prevByte = chunk[i]
//@     invariant @each-byte-is-encoded-with-the-key-xor-its-global-position: _i >= 1 ==> chunk[_i-1] == spec.Eval(op, prevByte, key ^ byte(byteOffset-1))
//@ end

//@ func shuffleStmts
//@   property C05
//@   trusted returns its arguments in a random order (rand.Shuffle with a swap of two elements): the same statements, nothing else changed
//@   assigns elems(stmts)
//@   ensures len(r0) == len(stmts) && ref(r0) == ref(stmts)
//@ end

//@ hookset splitobf
//@ hook before mvdan.cc/garble/internal/literals.encryptChunks(ch, o, k)
//@   assert("chunks-are-encoded-with-the-operator-whose-inverse-is-emitted-and-the-folded-key", o == op && k == decryptKey && ref(ch) == ref(chunks))
//@ end

//@ func (split).obfuscate
//@   property C05
//@   intmode bv
//@   spec ops.smt2
//@   hooks splitobf denote
//@   requires len(data) >= 1 && len(extKeys) > 0
//@   skip safety call-requires
//@   ensures @state-machine-starts-at-the-first-index: r0 != nil && len(r0.List) == 4 && r0.List[1].(*ast.AssignStmt).Lhs[0].(*ast.Ident).Name == "i" && r0.List[1].(*ast.AssignStmt).Rhs[0].(*ast.BasicLit).Value == strconv.Itoa(indexes[0])
//@   ensures @decoder-key-starts-from-the-initial-key: r0.List[2].(*ast.AssignStmt).Lhs[0].(*ast.Ident).Name == "decryptKey" && den[r0.List[2].(*ast.AssignStmt).Rhs[0].(*ast.CallExpr).Args[0]] == decryptKeyInitial
//@   ensures @state-machine-stops-at-the-exit-index-and-folds-index-times-counter-into-the-key: dyntypeis(r0.List[3], *ast.ForStmt) && r0.List[3].(*ast.ForStmt).Cond.(*ast.BinaryExpr).Op == token.NEQ && r0.List[3].(*ast.ForStmt).Cond.(*ast.BinaryExpr).X.(*ast.Ident).Name == "i" && r0.List[3].(*ast.ForStmt).Cond.(*ast.BinaryExpr).Y.(*ast.BasicLit).Value == strconv.Itoa(indexes[len(indexes)-1]) && r0.List[3].(*ast.ForStmt).Body.List[0].(*ast.AssignStmt).Tok == token.XOR_ASSIGN && r0.List[3].(*ast.ForStmt).Body.List[0].(*ast.AssignStmt).Lhs[0].(*ast.Ident).Name == "decryptKey" && r0.List[3].(*ast.ForStmt).Body.List[0].(*ast.AssignStmt).Rhs[0].(*ast.BinaryExpr).Op == token.MUL && r0.List[3].(*ast.ForStmt).Body.List[0].(*ast.AssignStmt).Rhs[0].(*ast.BinaryExpr).X.(*ast.Ident).Name == "i" && r0.List[3].(*ast.ForStmt).Body.List[0].(*ast.AssignStmt).Rhs[0].(*ast.BinaryExpr).Y.(*ast.Ident).Name == "counter"
//@ end

// ---- C05: the shuffle obfuscator ----
// fullData holds, for every i, the byte data[i] <op_i> key[i] at i and key[i] at len(data)+i; it is
// stored shuffled (shuffledFullData[shuffledIdxs[j]] = fullData[j]); the emitted code rebuilds data[i] as
//   fullData[(shuffledIdxs[i]^k) ^ int(idxKey[n])] <inverse op_i> fullData[(shuffledIdxs[len+i]^k) ^ int(idxKey[n])]
// with k = int(idxKey[n]), i.e. it reads the two shuffled slots back. Each of the three loops is proved to
// set up its own element; the literal for fullData is the shuffled bytes, the literal for idxKey the index key.

//@ ghost shufLit map[ref]int

//@ hookset shuffleobf
//@ hook after mvdan.cc/garble/internal/asthelper.IntLit(v) (r)
//@   shufLit[r] = v
//@ end

//@ func (shuffle).obfuscate
//@   property C05
//@   intmode bv
//@   spec ops.smt2
//@   hooks shuffleobf emitbytes
//@   requires len(data) >= 1 && len(extKeys) > 0
//@   skip safety call-requires
//@   ensures @shuffled-bytes-and-index-key-are-what-the-decoder-is-given: r0 != nil && len(r0.List) == 4 && r0.List[0].(*ast.AssignStmt).Lhs[0].(*ast.Ident).Name == "fullData" && r0.List[1].(*ast.AssignStmt).Lhs[0].(*ast.Ident).Name == "idxKey" && len(litOf[r0.List[0].(*ast.AssignStmt).Rhs[0]]) == len(shuffledFullData) && len(litOf[r0.List[1].(*ast.AssignStmt).Rhs[0]]) == len(idxKey)
//@   ensures @decoded-bytes-are-appended-in-order: dyntypeis(r0.List[3], *ast.AssignStmt) && r0.List[3].(*ast.AssignStmt).Lhs[0].(*ast.Ident).Name == "data" && dyntypeis(r0.List[3].(*ast.AssignStmt).Rhs[0], *ast.CallExpr) && r0.List[3].(*ast.AssignStmt).Rhs[0].(*ast.CallExpr).Fun.(*ast.Ident).Name == "append" && ref(r0.List[3].(*ast.AssignStmt).Rhs[0].(*ast.CallExpr).Args) == ref(args) && len(r0.List[3].(*ast.AssignStmt).Rhs[0].(*ast.CallExpr).Args) == len(data) + 1
//@   loop 1
//@     invariant @slot-i-holds-the-encoded-byte-and-slot-len-plus-i-its-key: _i >= 1 ==> fullData[_i-1] == spec.Eval(operators[_i-1], data[_i-1], key[_i-1]) && fullData[_i-1+len(data)] == key[_i-1]
//@     invariant len(fullData) == len(data) + len(key) && len(key) == len(data) && len(operators) == len(fullData)
//@   loop 2
//@     invariant @slot-j-is-stored-at-its-shuffled-index: _i >= 1 ==> shuffledFullData[shuffledIdxs[_i-1]] == fullData[_i-1]
//@     invariant len(shuffledFullData) == len(fullData) && len(shuffledIdxs) == len(fullData)
//@   loop 3
//@     invariant len(args) == _i + 1
//@     invariant @argument-i-reads-both-shuffled-slots-back-and-applies-the-inverse-operator: _i >= 1 ==> dyntypeis(args[_i], *ast.BinaryExpr) && args[_i].(*ast.BinaryExpr).Op == spec.Rev(operators[_i-1]) && dyntypeis(args[_i].(*ast.BinaryExpr).X, *ast.IndexExpr) && args[_i].(*ast.BinaryExpr).X.(*ast.IndexExpr).X.(*ast.Ident).Name == "fullData" && args[_i].(*ast.BinaryExpr).Y.(*ast.IndexExpr).X.(*ast.Ident).Name == "fullData" && args[_i].(*ast.BinaryExpr).X.(*ast.IndexExpr).Index.(*ast.BinaryExpr).Op == token.XOR && args[_i].(*ast.BinaryExpr).Y.(*ast.IndexExpr).Index.(*ast.BinaryExpr).Op == token.XOR
//@     invariant @index-literals-xor-the-index-key-give-the-shuffled-slots: _i >= 1 ==> 0 <= shufLit[args[_i].(*ast.BinaryExpr).X.(*ast.IndexExpr).Index.(*ast.BinaryExpr).Y.(*ast.CallExpr).Args[0].(*ast.IndexExpr).Index] && shufLit[args[_i].(*ast.BinaryExpr).X.(*ast.IndexExpr).Index.(*ast.BinaryExpr).Y.(*ast.CallExpr).Args[0].(*ast.IndexExpr).Index] < len(idxKey) && shufLit[args[_i].(*ast.BinaryExpr).X.(*ast.IndexExpr).Index.(*ast.BinaryExpr).X] ^ int(idxKey[shufLit[args[_i].(*ast.BinaryExpr).X.(*ast.IndexExpr).Index.(*ast.BinaryExpr).Y.(*ast.CallExpr).Args[0].(*ast.IndexExpr).Index]]) == shuffledIdxs[_i-1] && shufLit[args[_i].(*ast.BinaryExpr).Y.(*ast.IndexExpr).Index.(*ast.BinaryExpr).X] ^ int(idxKey[shufLit[args[_i].(*ast.BinaryExpr).Y.(*ast.IndexExpr).Index.(*ast.BinaryExpr).Y.(*ast.CallExpr).Args[0].(*ast.IndexExpr).Index]]) == shuffledIdxs[len(data)+_i-1]
//@ end
