package main

import (
	"fmt"
	"go/ast"
	"go/constant"
	"go/token"
	"go/types"
	"os"
	"path/filepath"
	"sort"
	"strings"

	"golang.org/x/tools/go/packages"
)

const garblePath = "mvdan.cc/garble"

type FuncInfo struct {
	Key  string
	Pkg  *packages.Package
	Decl *ast.FuncDecl
	Obj  *types.Func
	Con  *Contract
	Sig  *types.Signature // set for closure units (function literals)
}

type Universe struct {
	repo, verif string
	pkgs        map[string]*packages.Package
	allPkgs     map[string]*packages.Package // including dependencies
	funcs       map[string]*FuncInfo
	byObj       map[*types.Func]*FuncInfo
	cs          *ContractSet
	typeIDs     map[string]int
	tables      map[*types.Var]*table
	loadSecs    float64
	fset        *token.FileSet
	bindingErrs []string
	cg          *callGraph
	knownFailing map[string]bool
	writesCache  map[*FuncInfo]map[string]bool
}

var repoPkgs = []string{
	garblePath,
	garblePath + "/internal/literals",
	garblePath + "/internal/ctrlflow",
	garblePath + "/internal/linker",
	garblePath + "/internal/ssa2ast",
	garblePath + "/internal/asthelper",
}

func relOf(pkgPath string) string {
	return strings.TrimPrefix(strings.TrimPrefix(pkgPath, garblePath), "/")
}

func loadUniverse(repo, verif string, overlay map[string][]byte, preferMirror bool) (*Universe, error) {
	u := &Universe{repo: repo, verif: verif, pkgs: map[string]*packages.Package{}, allPkgs: map[string]*packages.Package{},
		funcs: map[string]*FuncInfo{}, byObj: map[*types.Func]*FuncInfo{}, tables: map[*types.Var]*table{}}
	cfg := &packages.Config{
		Mode: packages.NeedName | packages.NeedFiles | packages.NeedSyntax | packages.NeedTypes |
			packages.NeedTypesInfo | packages.NeedImports | packages.NeedDeps | packages.NeedCompiledGoFiles,
		Dir:        repo,
		BuildFlags: []string{"-tags=verif"},
		Overlay:    overlay,
		Env:        append(os.Environ(), "GOFLAGS=-mod=mod", "GOPROXY=off", "GOSUMDB=off", "GOTOOLCHAIN=local"),
	}
	pkgs, err := packages.Load(cfg, repoPkgs...)
	if err != nil {
		return nil, err
	}
	for _, p := range pkgs {
		if len(p.Errors) > 0 {
			return nil, fmt.Errorf("package %s does not type-check: %v", p.PkgPath, p.Errors[0])
		}
		u.pkgs[p.PkgPath] = p
		u.fset = p.Fset
	}
	packages.Visit(pkgs, nil, func(p *packages.Package) { u.allPkgs[p.PkgPath] = p })
	for _, p := range pkgs {
		for _, f := range p.Syntax {
			for _, d := range f.Decls {
				fd, ok := d.(*ast.FuncDecl)
				if !ok || fd.Body == nil {
					continue
				}
				obj, _ := p.TypesInfo.Defs[fd.Name].(*types.Func)
				if obj == nil {
					continue
				}
				key := funcKey(fd)
				fi := &FuncInfo{Key: key, Pkg: p, Decl: fd, Obj: obj}
				u.funcs[p.PkgPath+"."+key] = fi
				u.byObj[obj] = fi
			}
		}
	}
	u.knownFailing = map[string]bool{}
	for _, k := range loadKnown(verif) {
		if k.Status == "known" {
			u.knownFailing[k.Obligation] = true
		}
	}
	// contracts
	u.cs = newContractSet()
	for _, p := range repoPkgs {
		path, src := contractPathFor(repo, verif, relOf(p), preferMirror)
		if _, err := os.Stat(path); err != nil {
			continue
		}
		u.cs.Source[p] = src + ":" + path
		if err := u.cs.parseContractFile(path, p); err != nil {
			return nil, err
		}
	}
	assumed, _ := filepath.Glob(filepath.Join(verif, "contracts", "assumed", "*.contracts"))
	sort.Strings(assumed)
	for _, a := range assumed {
		if err := u.cs.parseContractFile(a, ""); err != nil {
			return nil, err
		}
	}
	for k, c := range u.cs.Contracts {
		fi := u.funcs[k]
		if fi == nil && strings.Contains(c.Key, "#") {
			// a function literal assigned to a local variable: parent#var
			fi = u.closureUnit(c.Pkg, c.Key)
			if fi != nil {
				u.funcs[k] = fi
			}
		}
		if fi == nil {
			u.bindingErrs = append(u.bindingErrs, fmt.Sprintf("%s: contract for unknown function %s (%s:%d)", k, c.Key, c.File, c.Line))
			continue
		}
		fi.Con = c
	}
	return u, nil
}

func funcKey(fd *ast.FuncDecl) string {
	if fd.Recv == nil || len(fd.Recv.List) == 0 {
		return fd.Name.Name
	}
	return "(" + recvString(fd.Recv.List[0].Type) + ")." + fd.Name.Name
}

func recvString(x ast.Expr) string {
	switch x := x.(type) {
	case *ast.StarExpr:
		return "*" + recvString(x.X)
	case *ast.Ident:
		return x.Name
	case *ast.IndexExpr:
		return recvString(x.X)
	case *ast.IndexListExpr:
		return recvString(x.X)
	case *ast.ParenExpr:
		return recvString(x.X)
	}
	return "?"
}

func (u *Universe) importByName(pkg *packages.Package, name string) *types.Package {
	if al := u.cs.Aliases[pkg.PkgPath]; al != nil {
		if path, ok := al[name]; ok {
			if p := u.allPkgs[path]; p != nil {
				return p.Types
			}
		}
	}
	var found *types.Package
	for _, imp := range pkg.Types.Imports() {
		if imp.Name() == name {
			if found != nil && found != imp {
				// ambiguous: prefer the one whose path ends in name
				if strings.HasSuffix(imp.Path(), "/"+name) || imp.Path() == name {
					if !(strings.HasSuffix(found.Path(), "/"+name) || found.Path() == name) {
						found = imp
					}
				}
				continue
			}
			found = imp
		}
	}
	if found == nil {
		// any loaded package with that name and a std-looking path
		for path, p := range u.allPkgs {
			if p.Types != nil && p.Types.Name() == name && !strings.Contains(path, ".") && path == name {
				return p.Types
			}
		}
	}
	return found
}

// ---- read-only package-level tables ----

type table struct {
	v       *types.Var
	name    string
	keyKind Kind
	valKind Kind
	entries []tableEntry
	ok      bool
	why     string

	presenceOnly bool
}

type tableEntry struct {
	keyStr string
	keyInt string
	val    constant.Value
}

// tableOfVar returns the table model of a package-level map variable that is
// initialised by a composite literal of constants and never written.
func (e *Eng) tableOfVar(v *types.Var) *table {
	if t, ok := e.u.tables[v]; ok {
		if t.ok {
			return t
		}
		return nil
	}
	t := &table{v: v, name: v.Pkg().Name() + "." + v.Name()}
	e.u.tables[v] = t
	m, ok := v.Type().Underlying().(*types.Map)
	if !ok {
		return nil
	}
	t.keyKind, t.valKind = e.kindOf(m.Key()), e.kindOf(m.Elem())
	if t.keyKind != KStr && t.keyKind != KInt {
		return nil
	}
	if t.valKind != KBool && t.valKind != KStr && t.valKind != KInt {
		t.presenceOnly = true // only "is the key present" is modelled
	}
	pkg := e.u.allPkgs[v.Pkg().Path()]
	if pkg == nil || pkg.TypesInfo == nil {
		return nil
	}
	var lit *ast.CompositeLit
	written := false
	for _, f := range pkg.Syntax {
		ast.Inspect(f, func(n ast.Node) bool {
			switch n := n.(type) {
			case *ast.ValueSpec:
				for i, id := range n.Names {
					if pkg.TypesInfo.Defs[id] == v && i < len(n.Values) {
						lit, _ = n.Values[i].(*ast.CompositeLit)
					}
				}
			case *ast.AssignStmt:
				for _, l := range n.Lhs {
					if usesVar(pkg.TypesInfo, l, v) {
						written = true
					}
				}
			case *ast.CallExpr:
				if id, ok := n.Fun.(*ast.Ident); ok && (id.Name == "delete" || id.Name == "clear") && len(n.Args) > 0 && usesVar(pkg.TypesInfo, n.Args[0], v) {
					written = true
				}
			case *ast.UnaryExpr:
				if n.Op == token.AND && usesVar(pkg.TypesInfo, n.X, v) {
					written = true
				}
			}
			return true
		})
	}
	if lit == nil || written {
		t.why = "not a literal or written"
		return nil
	}
	for _, el := range lit.Elts {
		kv, ok := el.(*ast.KeyValueExpr)
		if !ok {
			return nil
		}
		ktv, vtv := pkg.TypesInfo.Types[kv.Key], pkg.TypesInfo.Types[kv.Value]
		if ktv.Value == nil || (vtv.Value == nil && !t.presenceOnly) {
			t.why = "non-constant entry"
			return nil
		}
		en := tableEntry{val: vtv.Value}
		if t.keyKind == KStr {
			en.keyStr = constant.StringVal(ktv.Value)
		} else {
			en.keyInt = ktv.Value.ExactString()
		}
		t.entries = append(t.entries, en)
	}
	t.ok = true
	return t
}

func usesVar(info *types.Info, x ast.Expr, v *types.Var) bool {
	switch x := x.(type) {
	case *ast.Ident:
		return info.ObjectOf(x) == v
	case *ast.IndexExpr:
		return usesVar(info, x.X, v)
	case *ast.ParenExpr:
		return usesVar(info, x.X, v)
	case *ast.SelectorExpr:
		return info.ObjectOf(x.Sel) == v
	}
	return false
}

func (e *Eng) tableOf(x ast.Expr) *table {
	id := identOf(ast.Unparen(x))
	if id == nil {
		return nil
	}
	v, ok := e.info.ObjectOf(id).(*types.Var)
	if !ok || !isPkgLevel(v) {
		return nil
	}
	return e.tableOfVar(v)
}

// tableLookup emits (once) define-funs for the table and applies them.
func (e *Eng) tableLookup(t *table, k Val, c *ctx, commaOk bool) Val {
	m := t.v.Type().Underlying().(*types.Map)
	valName := "|tbl:" + t.name + "|"
	inName := "|tblin:" + t.name + "|"
	if !e.declSet["tbl:"+t.name] {
		e.declOnce("tbl:" + t.name)
		e.decls = e.decls[:len(e.decls)-1] // marker only
		ksort := "Str"
		if t.keyKind == KInt {
			ksort = e.sortOfKind(KInt, m.Key())
		}
		key := func(en tableEntry) string {
			if t.keyKind == KStr {
				return e.strLit(en.keyStr)
			}
			n := new(bigInt)
			n.SetString(en.keyInt, 10)
			return e.intLit(n, m.Key())
		}
		var ins []string
		for _, en := range t.entries {
			ins = append(ins, "(= k "+key(en)+")")
		}
		e.decls = append(e.decls, fmt.Sprintf("(define-fun %s ((k %s)) Bool (or false %s))", inName, ksort, strings.Join(ins, " ")))
		vk := t.valKind
		if t.presenceOnly {
			vk = KUnit
		}
		switch vk {
		case KBool:
			var ts []string
			for _, en := range t.entries {
				if constant.BoolVal(en.val) {
					ts = append(ts, "(= k "+key(en)+")")
				}
			}
			e.decls = append(e.decls, fmt.Sprintf("(define-fun %s ((k %s)) Bool (or false %s))", valName, ksort, strings.Join(ts, " ")))
		case KStr:
			body := "str.empty"
			for i := len(t.entries) - 1; i >= 0; i-- {
				en := t.entries[i]
				body = "(ite (= k " + key(en) + ") " + e.strLit(constant.StringVal(en.val)) + " " + body + ")"
			}
			// literals must be declared before the define-fun: strLit appends to decls, so build body first
			e.decls = append(e.decls, fmt.Sprintf("(define-fun %s ((k Str)) Str %s)", valName, body))
		case KInt:
			body := e.intLit(new(bigInt), m.Elem())
			for i := len(t.entries) - 1; i >= 0; i-- {
				en := t.entries[i]
				n := new(bigInt)
				n.SetString(en.val.ExactString(), 10)
				body = "(ite (= k " + key(en) + ") " + e.intLit(n, m.Elem()) + " " + body + ")"
			}
			e.decls = append(e.decls, fmt.Sprintf("(define-fun %s ((k %s)) %s %s)", valName, ksort, e.sortOfKind(KInt, m.Elem()), body))
		}
	}
	kt := k.T
	if k.K == KInt {
		kt = e.convertInt(k, m.Key(), c).T
	}
	v := Val{K: t.valKind, T: "(" + valName + " " + kt + ")", GoT: m.Elem()}
	if t.presenceOnly {
		v = e.symFor("tblval", m.Elem(), c.st)
		if _, isMap := m.Elem().Underlying().(*types.Map); isMap && v.K == KRef && t.keyKind == KStr {
			// a table of tables: the inner map is one value per key (nil for an absent key),
			// so that two lookups of the same key agree
			fn := "|tblv:" + t.name + "|"
			e.declOnce(fmt.Sprintf("(declare-fun %s (Str) Int)", fn))
			e.declOnce(fmt.Sprintf("(assert (forall ((k Str)) (! (and (>= (%s k) 0) (= (= (%s k) 0) (not (%s k)))) :pattern ((%s k)))))", fn, fn, inName, fn))
			v.T = "(" + fn + " " + kt + ")"
		}
	}
	if commaOk {
		return Val{K: KTuple, Elts: []Val{v, {K: KBool, T: "(" + inName + " " + kt + ")", GoT: types.Typ[types.Bool]}}}
	}
	return v
}
