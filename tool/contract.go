package main

import (
	"bufio"
	"fmt"
	"go/ast"
	"go/parser"
	"go/token"
	"os"
	"path/filepath"
	"regexp"
	"strconv"
	"strings"
)

// ---- spec expressions: Go expressions plus ==>, <==>, forall/exists ----

type SpecExpr interface{}

type (
	SImplies struct{ A, B SpecExpr }
	SIff     struct{ A, B SpecExpr }
	SAnd     struct{ L []SpecExpr }
	SOr      struct{ L []SpecExpr }
	SNot     struct{ X SpecExpr }
	SOld     struct{ X SpecExpr }
	SQuant   struct {
		Forall bool
		Vars   []string
		Typ    string
		Body   SpecExpr
	}
	SGo struct {
		X   ast.Expr
		Src string
	}
)

// wrapSpecAsserts lets assert(...) / assume(...) in a hook body carry a full
// spec expression (==>, forall, exists): the expression is hidden from the Go
// parser inside __spec("...") and parsed by parseSpec when the hook runs.
func wrapSpecAsserts(line string) string {
	for _, kw := range []string{"assert(", "assume("} {
		i := strings.Index(line, kw)
		if i < 0 {
			continue
		}
		start := i + len(kw)
		depth, j, inStr := 1, start, false
		for ; j < len(line) && depth > 0; j++ {
			ch := line[j]
			switch {
			case inStr:
				if ch == '\\' {
					j++
				} else if ch == '"' {
					inStr = false
				}
			case ch == '"':
				inStr = true
			case ch == '(':
				depth++
			case ch == ')':
				depth--
			}
		}
		if depth != 0 {
			return line
		}
		inner := line[start : j-1]
		label, expr := "", inner
		if t := strings.TrimLeft(inner, " "); strings.HasPrefix(t, "\"") {
			if k := strings.Index(t[1:], "\""); k >= 0 {
				rest := strings.TrimLeft(t[k+2:], " ")
				if strings.HasPrefix(rest, ",") {
					label, expr = t[:k+2]+", ", rest[1:]
				}
			}
		}
		if !hasSpecial(expr) {
			return line
		}
		return line[:start] + label + "__spec(" + strconv.Quote(strings.TrimSpace(expr)) + ")" + line[j-1:]
	}
	return line
}

func hasSpecial(s string) bool {
	return strings.Contains(s, "==>") || containsWord(s, "forall") || containsWord(s, "exists")
}

func containsWord(s, w string) bool {
	i := 0
	for {
		j := strings.Index(s[i:], w)
		if j < 0 {
			return false
		}
		j += i
		before := j == 0 || !isIdentChar(s[j-1])
		after := j+len(w) >= len(s) || !isIdentChar(s[j+len(w)])
		if before && after {
			return true
		}
		i = j + len(w)
	}
}

func isIdentChar(b byte) bool {
	return b == '_' || b >= '0' && b <= '9' || b >= 'a' && b <= 'z' || b >= 'A' && b <= 'Z' || b == '.'
}

// topSplit splits s at top-level occurrences of op (outside brackets, quotes
// and quantifier bodies). Returns nil if there is no top-level occurrence.
func topSplit(s, op string, first bool) []string {
	depth := 0
	var parts []string
	last := 0
	i := 0
	for i < len(s) {
		ch := s[i]
		switch ch {
		case '(', '[', '{':
			depth++
		case ')', ']', '}':
			depth--
		case '"':
			j := i + 1
			for j < len(s) && s[j] != '"' {
				if s[j] == '\\' {
					j++
				}
				j++
			}
			i = j
		case '\'':
			j := i + 1
			for j < len(s) && s[j] != '\'' {
				if s[j] == '\\' {
					j++
				}
				j++
			}
			i = j
		case '`':
			j := i + 1
			for j < len(s) && s[j] != '`' {
				j++
			}
			i = j
		}
		if depth == 0 {
			// stop at a top-level quantifier
			for _, q := range []string{"forall", "exists"} {
				if strings.HasPrefix(s[i:], q) && (i == 0 || !isIdentChar(s[i-1])) && i+len(q) < len(s) && s[i+len(q)] == ' ' && i > 0 {
					goto done
				}
			}
			if strings.HasPrefix(s[i:], op) {
				// do not confuse ==> with <==>
				if op == "==>" && i > 0 && s[i-1] == '<' {
					i += len(op)
					continue
				}
				if op == "||" || op == "&&" || true {
					parts = append(parts, s[last:i])
					last = i + len(op)
					i += len(op)
					if first {
						parts = append(parts, s[last:])
						return parts
					}
					continue
				}
			}
		}
		i++
	}
done:
	if len(parts) == 0 {
		return nil
	}
	parts = append(parts, s[last:])
	return parts
}

func stripOuterParens(s string) (string, bool) {
	s = strings.TrimSpace(s)
	if len(s) < 2 || s[0] != '(' || s[len(s)-1] != ')' {
		return s, false
	}
	depth := 0
	for i := 0; i < len(s); i++ {
		switch s[i] {
		case '(':
			depth++
		case ')':
			depth--
			if depth == 0 && i != len(s)-1 {
				return s, false
			}
		case '"':
			j := i + 1
			for j < len(s) && s[j] != '"' {
				if s[j] == '\\' {
					j++
				}
				j++
			}
			i = j
		case '\'':
			j := i + 1
			for j < len(s) && s[j] != '\'' {
				if s[j] == '\\' {
					j++
				}
				j++
			}
			i = j
		}
	}
	return s[1 : len(s)-1], true
}

func parseSpec(src string) (SpecExpr, error) {
	s := strings.TrimSpace(src)
	if !hasSpecial(s) {
		x, err := parser.ParseExpr(s)
		if err != nil {
			return nil, fmt.Errorf("spec %q: %v", src, err)
		}
		return &SGo{X: x, Src: s}, nil
	}
	if strings.HasPrefix(s, "old(") {
		if in, ok := stripOuterParens(s[3:]); ok {
			x, err := parseSpec(in)
			if err != nil {
				return nil, err
			}
			return &SOld{x}, nil
		}
	}
	for _, q := range []string{"forall", "exists"} {
		if strings.HasPrefix(s, q+" ") {
			i := strings.Index(s, "::")
			if i < 0 {
				return nil, fmt.Errorf("spec %q: quantifier without ::", src)
			}
			binder := strings.Fields(strings.ReplaceAll(s[len(q):i], ",", " "))
			if len(binder) < 2 {
				return nil, fmt.Errorf("spec %q: bad binder", src)
			}
			body, err := parseSpec(s[i+2:])
			if err != nil {
				return nil, err
			}
			return &SQuant{Forall: q == "forall", Vars: binder[:len(binder)-1], Typ: binder[len(binder)-1], Body: body}, nil
		}
	}
	if p := topSplit(s, "<==>", true); p != nil {
		a, err := parseSpec(p[0])
		if err != nil {
			return nil, err
		}
		b, err := parseSpec(p[1])
		if err != nil {
			return nil, err
		}
		return &SIff{a, b}, nil
	}
	if p := topSplit(s, "==>", true); p != nil {
		a, err := parseSpec(p[0])
		if err != nil {
			return nil, err
		}
		b, err := parseSpec(p[1])
		if err != nil {
			return nil, err
		}
		return &SImplies{a, b}, nil
	}
	if p := topSplit(s, "||", false); p != nil {
		var l []SpecExpr
		for _, q := range p {
			x, err := parseSpec(q)
			if err != nil {
				return nil, err
			}
			l = append(l, x)
		}
		return &SOr{l}, nil
	}
	if p := topSplit(s, "&&", false); p != nil {
		var l []SpecExpr
		for _, q := range p {
			x, err := parseSpec(q)
			if err != nil {
				return nil, err
			}
			l = append(l, x)
		}
		return &SAnd{l}, nil
	}
	if strings.HasPrefix(s, "!") {
		x, err := parseSpec(s[1:])
		if err != nil {
			return nil, err
		}
		return &SNot{x}, nil
	}
	if in, ok := stripOuterParens(s); ok {
		return parseSpec(in)
	}
	return nil, fmt.Errorf("spec %q: special operator in unsupported position", src)
}

// ---- contracts ----

type Clause struct {
	Label string
	Src   string
	Expr  SpecExpr
	Props []string
	Line  int
}

type LoopSpec struct {
	Invariants []Clause
	Assigns    []string
	// Iter: ghost statements run at the start of every iteration, with the
	// loop variables in scope ("iter <stmt>" lines)
	Iter    []ast.Stmt
	IterSrc []string
}

type GhostDecl struct {
	Name string
	Type string // bool, int, string, map[string]bool, ...
	Init string
}

type Hook struct {
	When    string // before | after
	Callee  string
	Args    []string
	Results []string
	Body    []ast.Stmt
	Src     string
	Set     string
	Line    int
	File    string
}

type Contract struct {
	Key       string // function key within package, or full callee name for externs
	Pkg       string
	File      string
	Line      int
	Extern    bool
	Props     []string
	Spec      []string
	IntMode   string
	Inline    bool
	Pure      bool   // callers see an uninterpreted function of the arguments
	Effect    string // externs: pure | io | havoc
	NonNil    bool
	Requires  []Clause
	Ensures   []Clause
	MayPanic  []Clause
	Facts     []Clause // assumed at entry; each must name (label) the ground obligation that backs it
	Det       []DetClause
	Assigns   []string
	HasAssign bool
	Writes    []string // extern: names of params whose pointee is overwritten
	Loops     map[int]*LoopSpec
	Ghosts    []GhostDecl
	UseHooks  []string
	Params    []string // extern param names
	Results   []string // extern / override result names
	Callbacks []string // extern: parameters that are functions the callee calls (any number of times)
	Abstract  []string // statements to abstract: "stmt <ordinal>"
	NoBody    bool     // contract is trusted, body not verified (listed as assumption)
	Reason    string
	Skip      map[string]bool // obligation kinds not generated (e.g. safety)
	MaxPaths  int
	CaseCalls []CaseCalls
	SkipTag   string
	Unclaimed [][2]string
	MustRead  []CaseCalls
	Lemmas    []Clause
	Covers    bool
}

type Lemma struct {
	Name  string
	Pkg   string
	Props []string
	Spec  []string
	SMT   []string // raw SMT lines: declarations and (assert ...) of premises; goal in Goal
	Goal  string
	File  string
	Line  int
	BV    bool
}

type ContractSet struct {
	Stable   map[string]string // stable package-level variable (pkgname.var) -> properties that rely on it
	Contracts map[string]*Contract // pkgpath + "." + key
	Externs   map[string]*Contract // callee full name
	PureFuncs map[string]bool
	IOFuncs   map[string]bool
	NonNil    map[string]bool
	PurePkgs  map[string]bool
	Hooks     []*Hook
	Ghosts    []GhostDecl
	Lemmas    []*Lemma
	OrderAssumes []orderNote
	Aliases   map[string]map[string]string // pkg -> alias -> import path
	Source    map[string]string            // pkg -> where contracts were read from
}

var rxDirective = regexp.MustCompile(`^//@(\+?)\s?(.*)$`)

func newContractSet() *ContractSet {
	return &ContractSet{
		Contracts: map[string]*Contract{}, Externs: map[string]*Contract{},
		PureFuncs: map[string]bool{}, IOFuncs: map[string]bool{}, NonNil: map[string]bool{}, PurePkgs: map[string]bool{},
		Aliases: map[string]map[string]string{}, Source: map[string]string{},
	}
}

// parseContractFile reads //@ lines of a file. pkgPath is the Go package the
// file belongs to ("" for the assumed-contract file).
func (cs *ContractSet) parseContractFile(path, pkgPath string) error {
	f, err := os.Open(path)
	if err != nil {
		return err
	}
	defer f.Close()
	sc := bufio.NewScanner(f)
	sc.Buffer(make([]byte, 1<<20), 1<<20)
	type line struct {
		text string
		no   int
	}
	var lines []line
	no := 0
	for sc.Scan() {
		no++
		m := rxDirective.FindStringSubmatch(strings.TrimRight(sc.Text(), " \t"))
		if m == nil {
			continue
		}
		if m[1] == "+" && len(lines) > 0 {
			lines[len(lines)-1].text += " " + strings.TrimSpace(m[2])
			continue
		}
		t := strings.TrimSpace(m[2])
		if t == "" || strings.HasPrefix(t, "#") {
			continue
		}
		lines = append(lines, line{t, no})
	}
	var cur *Contract
	var curLoop *LoopSpec
	var curHook *Hook
	var curLemma *Lemma
	var hookSrc []string
	curSet := ""
	flushHook := func() error {
		if curHook == nil {
			return nil
		}
		for i := range hookSrc {
			hookSrc[i] = wrapSpecAsserts(hookSrc[i])
		}
		src := "package p\nfunc _() {\n" + strings.Join(hookSrc, "\n") + "\n}"
		fs := token.NewFileSet()
		pf, err := parser.ParseFile(fs, "hook", src, 0)
		if err != nil {
			return fmt.Errorf("%s:%d: hook body: %v", path, curHook.Line, err)
		}
		curHook.Body = pf.Decls[0].(*ast.FuncDecl).Body.List
		curHook.Src = strings.Join(hookSrc, "; ")
		cs.Hooks = append(cs.Hooks, curHook)
		curHook, hookSrc = nil, nil
		return nil
	}
	mkClause := func(rest string, ln int) (Clause, error) {
		c := Clause{Line: ln}
		rest = strings.TrimSpace(rest)
		if strings.HasPrefix(rest, "@") {
			i := strings.Index(rest, ":")
			if i < 0 {
				return c, fmt.Errorf("%s:%d: label without ':'", path, ln)
			}
			c.Label = strings.TrimSpace(rest[1:i])
			rest = strings.TrimSpace(rest[i+1:])
		}
		// optional per-clause property tags: [C16,C12] prefix
		if strings.HasPrefix(rest, "[") {
			if i := strings.Index(rest, "]"); i > 0 && regexp.MustCompile(`^\[C\d+(,\s*C\d+)*\]`).MatchString(rest) {
				for _, p := range strings.Split(rest[1:i], ",") {
					c.Props = append(c.Props, strings.TrimSpace(p))
				}
				rest = strings.TrimSpace(rest[i+1:])
			}
		}
		c.Src = rest
		x, err := parseSpec(rest)
		if err != nil {
			return c, fmt.Errorf("%s:%d: %v", path, ln, err)
		}
		c.Expr = x
		return c, nil
	}
	for _, l := range lines {
		word, rest, _ := strings.Cut(l.text, " ")
		rest = strings.TrimSpace(rest)
		if curHook != nil {
			switch word {
			case "func", "extern", "hook", "lemma", "ghost", "hookset", "pure", "io", "nonnil", "purepkg", "import", "end", "stable":
				if err := flushHook(); err != nil {
					return err
				}
			default:
				hookSrc = append(hookSrc, l.text)
				continue
			}
		}
		if curLemma != nil {
			switch word {
			case "func", "extern", "hook", "lemma", "hookset", "end":
				cs.Lemmas = append(cs.Lemmas, curLemma)
				curLemma = nil
			case "property":
				curLemma.Props = strings.Fields(rest)
				continue
			case "spec":
				curLemma.Spec = append(curLemma.Spec, strings.Fields(rest)...)
				continue
			case "goal":
				curLemma.Goal = rest
				continue
			case "smt":
				curLemma.SMT = append(curLemma.SMT, rest)
				continue
			case "intmode":
				curLemma.BV = rest == "bv"
				continue
			default:
				return fmt.Errorf("%s:%d: unknown lemma directive %q", path, l.no, word)
			}
		}
		switch word {
		case "end":
			cur, curLoop = nil, nil
		case "import":
			f := strings.Fields(rest)
			if len(f) != 2 {
				return fmt.Errorf("%s:%d: import alias \"path\"", path, l.no)
			}
			p, _ := strconv.Unquote(f[1])
			if cs.Aliases[pkgPath] == nil {
				cs.Aliases[pkgPath] = map[string]string{}
			}
			cs.Aliases[pkgPath][f[0]] = p
		case "pure":
			if cur != nil && rest == "" {
				cur.Pure = true
				continue
			}
			for _, n := range strings.Fields(rest) {
				cs.PureFuncs[n] = true
			}
		case "io":
			for _, n := range strings.Fields(rest) {
				cs.IOFuncs[n] = true
			}
		case "nonnil":
			for _, n := range strings.Fields(rest) {
				cs.NonNil[n] = true
			}
		case "purepkg":
			for _, n := range strings.Fields(rest) {
				cs.PurePkgs[n] = true
			}
		case "order_insensitive":
			// order_insensitive <func> <site> because <reason>   (an assumption, listed in evidence)
			f := strings.Fields(rest)
			i := strings.Index(rest, " because ")
			if len(f) < 4 || i < 0 {
				return fmt.Errorf("%s:%d: order_insensitive <func> <site> because <reason>", path, l.no)
			}
			cs.OrderAssumes = append(cs.OrderAssumes, orderNote{fn: f[0], site: f[1], reason: strings.TrimSpace(rest[i+9:])})
		case "hookset":
			curSet = rest
			cur, curLoop = nil, nil
		case "ghost":
			f := strings.SplitN(rest, "=", 2)
			nt := strings.Fields(f[0])
			if len(nt) != 2 {
				return fmt.Errorf("%s:%d: ghost <name> <type> [= init]", path, l.no)
			}
			g := GhostDecl{Name: nt[0], Type: nt[1]}
			if len(f) == 2 {
				g.Init = strings.TrimSpace(f[1])
			}
			if cur != nil {
				cur.Ghosts = append(cur.Ghosts, g)
			} else {
				cs.Ghosts = append(cs.Ghosts, g)
			}
		case "hook":
			// hook before|after <callee>(a, b) [(r, err)]
			when, r2, _ := strings.Cut(rest, " ")
			h := &Hook{When: when, Set: curSet, Line: l.no, File: path}
			i := strings.LastIndex(r2, ")")
			if i < 0 {
				return fmt.Errorf("%s:%d: hook syntax", path, l.no)
			}
			sig := r2[:i+1]
			// results group?
			if strings.HasSuffix(sig, ")") {
				// find matching groups from the end
				groups := splitGroups(sig)
				switch len(groups) {
				case 2:
					h.Callee, h.Args = groups[0], fieldsComma(groups[1])
				case 3:
					h.Callee, h.Args, h.Results = groups[0], fieldsComma(groups[1]), fieldsComma(groups[2])
				default:
					return fmt.Errorf("%s:%d: hook signature %q", path, l.no, sig)
				}
			}
			if h.When != "before" && h.When != "after" {
				return fmt.Errorf("%s:%d: hook before|after", path, l.no)
			}
			curHook = h
			cur, curLoop = nil, nil
		case "stable":
			// stable C05 C09: flagLiterals flagTiny -- package-level variables written only by
			// flag parsing in init/main; no call forgets them (backed by ground:stable-<var>)
			ps, vs, ok := strings.Cut(rest, ":")
			if !ok {
				return fmt.Errorf("%s:%d: stable <properties>: <variables>", path, l.no)
			}
			if cs.Stable == nil {
				cs.Stable = map[string]string{}
			}
			for _, v := range strings.Fields(vs) {
				cs.Stable[v] = strings.TrimSpace(ps)
			}
			cur, curLoop = nil, nil
		case "lemma":
			curLemma = &Lemma{Name: rest, Pkg: pkgPath, File: path, Line: l.no}
			cur, curLoop = nil, nil
		case "func", "extern":
			cur = &Contract{Pkg: pkgPath, File: path, Line: l.no, Loops: map[int]*LoopSpec{}, Skip: map[string]bool{}}
			curLoop = nil
			if word == "extern" {
				cur.Extern = true
				groups := splitGroups(rest)
				cur.Key = groups[0]
				if len(groups) > 1 {
					cur.Params = fieldsComma(groups[1])
				}
				if len(groups) > 2 {
					cur.Results = fieldsComma(groups[2])
				}
				cur.Effect = "io"
				cs.Externs[cur.Key] = cur
			} else {
				cur.Key = strings.TrimSpace(rest)
				if prev, dup := cs.Contracts[pkgPath+"."+cur.Key]; dup {
					return fmt.Errorf("%s:%d: second contract block for %s (first at line %d): merge them", path, l.no, cur.Key, prev.Line)
				}
				cs.Contracts[pkgPath+"."+cur.Key] = cur
			}
		default:
			if cur == nil {
				return fmt.Errorf("%s:%d: directive %q outside func/extern", path, l.no, word)
			}
			switch word {
			case "property":
				cur.Props = append(cur.Props, strings.Fields(rest)...)
			case "spec":
				cur.Spec = append(cur.Spec, strings.Fields(rest)...)
			case "intmode":
				cur.IntMode = rest
			case "inline":
				cur.Inline = true
			case "pure":
				cur.Pure = true
			case "effect":
				cur.Effect = rest
			case "nonnil":
				cur.NonNil = true
			case "trusted":
				cur.NoBody = true
				cur.Reason = rest
			case "results":
				cur.Results = fieldsComma(rest)
			case "hooks":
				cur.UseHooks = append(cur.UseHooks, strings.Fields(rest)...)
			case "skip":
				for _, k := range strings.Fields(rest) {
					cur.Skip[k] = true
				}
			case "case_calls":
				// case_calls <type expr>: f, g, h   -- inside that type-switch case only these may be called
				i := strings.Index(rest, ":")
				if i < 0 {
					return fmt.Errorf("%s:%d: case_calls <type>: names", path, l.no)
				}
				cur.CaseCalls = append(cur.CaseCalls, CaseCalls{Type: strings.TrimSpace(rest[:i]), Allowed: fieldsComma(rest[i+1:]), Line: l.no})
			case "maxpaths":
				cur.MaxPaths, _ = strconv.Atoi(rest)
			case "covers":
				cur.Covers = true
			case "deterministic":
				// deterministic [@label:] [when <cond>] in <expr>, <expr>, ...
				d := DetClause{Line: l.no}
				r := rest
				if strings.HasPrefix(r, "@") {
					i := strings.Index(r, ":")
					d.Label = strings.TrimSpace(r[1:i])
					r = strings.TrimSpace(r[i+1:])
				}
				if strings.HasPrefix(r, "when ") {
					i := strings.LastIndex(r, " in ")
					if i < 0 {
						return fmt.Errorf("%s:%d: deterministic when <cond> in <exprs>", path, l.no)
					}
					w, err := mkClause(r[5:i], l.no)
					if err != nil {
						return err
					}
					d.When = &w
					r = r[i+1:]
				}
				r = strings.TrimPrefix(strings.TrimSpace(r), "in ")
				for _, part := range splitTopCommas(r) {
					cl, err := mkClause(part, l.no)
					if err != nil {
						return err
					}
					d.In = append(d.In, cl)
				}
				cur.Det = append(cur.Det, d)
			case "writes":
				cur.Writes = append(cur.Writes, fieldsComma(rest)...)
			case "callback":
				// callback <param>: the function passed for <param> is called any number of times
				cur.Callbacks = append(cur.Callbacks, fieldsComma(rest)...)
			case "must_read":
				// must_read <pkg.Type>: F1, F2 -- each field carries meaning: a translator must look at it
				i := strings.Index(rest, ":")
				if i < 0 {
					return fmt.Errorf("%s:%d: must_read <type>: fields", path, l.no)
				}
				cur.MustRead = append(cur.MustRead, CaseCalls{Type: strings.TrimSpace(rest[:i]), Allowed: fieldsComma(rest[i+1:]), Line: l.no})
			case "unclaimed":
				// unclaimed <obligation name part> because <reason>: generated but not part of the claim
				i := strings.Index(rest, " because ")
				if i < 0 {
					return fmt.Errorf("%s:%d: unclaimed <name> because <reason>", path, l.no)
				}
				cur.Unclaimed = append(cur.Unclaimed, [2]string{strings.TrimSpace(rest[:i]), strings.TrimSpace(rest[i+9:])})
			case "skiptag":
				// decoders leave struct fields tagged <key>:"-" untouched
				cur.SkipTag = strings.TrimSpace(rest)
			case "assigns":
				cur.HasAssign = true
				if curLoop != nil {
					curLoop.Assigns = append(curLoop.Assigns, fieldsComma(rest)...)
				} else {
					cur.Assigns = append(cur.Assigns, fieldsComma(rest)...)
				}
			case "requires", "ensures", "may_panic", "invariant", "lemma_local", "fact":
				if word == "may_panic" {
					rest = strings.TrimPrefix(rest, "when ")
				}
				c, err := mkClause(rest, l.no)
				if err != nil {
					return err
				}
				switch word {
				case "requires":
					cur.Requires = append(cur.Requires, c)
				case "ensures":
					cur.Ensures = append(cur.Ensures, c)
				case "fact":
					cur.Facts = append(cur.Facts, c)
				case "may_panic":
					cur.MayPanic = append(cur.MayPanic, c)
				case "invariant":
					if curLoop == nil {
						return fmt.Errorf("%s:%d: invariant outside loop", path, l.no)
					}
					curLoop.Invariants = append(curLoop.Invariants, c)
				}
			case "iter":
				if curLoop == nil {
					return fmt.Errorf("%s:%d: iter outside loop", path, l.no)
				}
				src := "package p\nfunc _() {\n" + rest + "\n}"
				pf, err := parser.ParseFile(token.NewFileSet(), "iter", src, 0)
				if err != nil {
					return fmt.Errorf("%s:%d: iter statement: %v", path, l.no, err)
				}
				curLoop.Iter = append(curLoop.Iter, pf.Decls[0].(*ast.FuncDecl).Body.List...)
				curLoop.IterSrc = append(curLoop.IterSrc, rest)
			case "loop":
				k, err := strconv.Atoi(strings.Fields(rest)[0])
				if err != nil {
					return fmt.Errorf("%s:%d: loop <ordinal>", path, l.no)
				}
				curLoop = &LoopSpec{}
				cur.Loops[k] = curLoop
			default:
				return fmt.Errorf("%s:%d: unknown directive %q", path, l.no, word)
			}
		}
	}
	if err := flushHook(); err != nil {
		return err
	}
	if curLemma != nil {
		cs.Lemmas = append(cs.Lemmas, curLemma)
	}
	return nil
}

// splitGroups splits "name(a, b) (c, d)" into ["name", "a, b", "c, d"], keeping
// a receiver group such as "(*T).M(a)" inside the name.
func splitGroups(s string) []string {
	s = strings.TrimSpace(s)
	// find the opening paren of the argument list: the '(' that follows an identifier char
	start := -1
	for i := 1; i < len(s); i++ {
		if s[i] == '(' && (isIdentChar(s[i-1]) || s[i-1] == ']') {
			start = i
			break
		}
	}
	if start < 0 {
		return []string{s}
	}
	out := []string{strings.TrimSpace(s[:start])}
	rest := s[start:]
	for len(rest) > 0 {
		rest = strings.TrimSpace(rest)
		if len(rest) == 0 || rest[0] != '(' {
			break
		}
		d := 0
		j := 0
		for j = 0; j < len(rest); j++ {
			if rest[j] == '(' {
				d++
			} else if rest[j] == ')' {
				d--
				if d == 0 {
					break
				}
			}
		}
		out = append(out, rest[1:j])
		rest = rest[j+1:]
	}
	return out
}

func fieldsComma(s string) []string {
	var out []string
	for _, f := range strings.Split(s, ",") {
		f = strings.TrimSpace(f)
		if f != "" {
			out = append(out, f)
		}
	}
	return out
}

// contractPathFor returns the file holding the contracts of a package: the
// guarded file inside /repo when present, the mirror under /verif otherwise.
func contractPathFor(repo, verif, rel string, preferMirror bool) (string, string) {
	inRepo := filepath.Join(repo, rel, "zz_verif_contracts.go")
	name := strings.ReplaceAll(strings.Trim(rel, "/."), "/", "_")
	if name == "" {
		name = "main"
	}
	mirror := filepath.Join(verif, "contracts", name+".contracts.go")
	if !preferMirror {
		if _, err := os.Stat(inRepo); err == nil {
			return inRepo, "repo"
		}
	}
	return mirror, "mirror"
}
