package main

import (
	"sort"
	"strings"
)

// Quantifier normalisation. Contract quantifiers range over positions relative
// to a slice (s[k] is row[off+k]); E-matching cannot match row[off+k] against
// row[off+i+1+k0]. The rewrite below re-indexes such a quantifier by the
// absolute position (k' = off+k), which is an equivalence: the bound variable
// is replaced by (k' - T) everywhere and index sums T+(k'-T) collapse to k'.

type sx struct {
	atom string
	list []*sx
}

func (s *sx) isAtom() bool { return s.list == nil && s.atom != "" }

func parseSx(toks []string, i int) (*sx, int) {
	if toks[i] != "(" {
		return &sx{atom: toks[i]}, i + 1
	}
	n := &sx{list: []*sx{}}
	i++
	for i < len(toks) && toks[i] != ")" {
		var c *sx
		c, i = parseSx(toks, i)
		n.list = append(n.list, c)
	}
	return n, i + 1
}

func (s *sx) String() string {
	var b strings.Builder
	s.write(&b)
	return b.String()
}

func (s *sx) write(b *strings.Builder) {
	if s.list == nil {
		b.WriteString(s.atom)
		return
	}
	b.WriteByte('(')
	for i, c := range s.list {
		if i > 0 {
			b.WriteByte(' ')
		}
		c.write(b)
	}
	b.WriteByte(')')
}

func (s *sx) head() string {
	if s.list != nil && len(s.list) > 0 && s.list[0].isAtom() {
		return s.list[0].atom
	}
	return ""
}

func (s *sx) mentions(v string) bool {
	if s.list == nil {
		return s.atom == v
	}
	for _, c := range s.list {
		if c.mentions(v) {
			return true
		}
	}
	return false
}

// flattenSum returns the summands of a (+ ...) tree.
func flattenSum(s *sx, out *[]*sx) {
	if s.head() == "+" {
		for _, c := range s.list[1:] {
			flattenSum(c, out)
		}
		return
	}
	*out = append(*out, s)
}

// indexSums collects the index arguments (of select / sat) that mention v.
func indexSums(s *sx, v string, out *[]*sx) {
	if s.list == nil {
		return
	}
	h := s.head()
	if (h == "select" || h == "sat") && len(s.list) == 3 && s.list[2].mentions(v) {
		*out = append(*out, s.list[2])
	}
	for _, c := range s.list {
		// do not descend into nested binders that rebind v
		if (c.head() == "forall" || c.head() == "exists") && bindsVar(c, v) {
			continue
		}
		indexSums(c, v, out)
	}
}

func bindsVar(q *sx, v string) bool {
	if len(q.list) < 3 || q.list[1].list == nil {
		return false
	}
	for _, b := range q.list[1].list {
		if b.list != nil && len(b.list) == 2 && b.list[0].atom == v {
			return true
		}
	}
	return false
}

func substSx(s *sx, v string, by *sx) *sx {
	if s.list == nil {
		if s.atom == v {
			return by
		}
		return s
	}
	if (s.head() == "forall" || s.head() == "exists") && bindsVar(s, v) {
		return s
	}
	n := &sx{list: make([]*sx, len(s.list))}
	for i, c := range s.list {
		n.list[i] = substSx(c, v, by)
	}
	return n
}

// simplifySums collapses (+ T... (- k T...)) to k inside index positions and elsewhere.
func simplifySums(s *sx, shift []*sx, v string) *sx {
	if s.list == nil {
		return s
	}
	n := &sx{list: make([]*sx, len(s.list))}
	for i, c := range s.list {
		n.list[i] = simplifySums(c, shift, v)
	}
	if n.head() == "+" {
		var terms []*sx
		flattenSum(n, &terms)
		// look for the marker (- v T1 T2 ...) among the summands
		for i, t := range terms {
			if t.head() == "-" && len(t.list) == 2+len(shift) && t.list[1].isAtom() && t.list[1].atom == v {
				rest := append(append([]*sx{}, terms[:i]...), terms[i+1:]...)
				if sameMultiset(rest, shift) {
					return &sx{atom: v}
				}
			}
		}
	}
	return n
}

func sameMultiset(a, b []*sx) bool {
	if len(a) != len(b) {
		return false
	}
	as, bs := make([]string, len(a)), make([]string, len(b))
	for i := range a {
		as[i], bs[i] = a[i].String(), b[i].String()
	}
	sort.Strings(as)
	sort.Strings(bs)
	for i := range as {
		if as[i] != bs[i] {
			return false
		}
	}
	return true
}

func normQuant(s *sx) *sx {
	if s.list == nil {
		return s
	}
	n := &sx{list: make([]*sx, len(s.list))}
	for i, c := range s.list {
		n.list[i] = normQuant(c)
	}
	h := n.head()
	if (h != "forall" && h != "exists") || len(n.list) != 3 || n.list[1].list == nil {
		return n
	}
	body := n.list[2]
	for _, b := range n.list[1].list {
		if b.list == nil || len(b.list) != 2 || b.list[1].atom != "Int" {
			continue
		}
		v := b.list[0].atom
		var sums []*sx
		indexSums(body, v, &sums)
		if len(sums) == 0 {
			continue
		}
		var shift []*sx
		ok := true
		first := true
		for _, sm := range sums {
			var terms []*sx
			flattenSum(sm, &terms)
			var rest []*sx
			nv := 0
			nested := false
			for _, t := range terms {
				if t.isAtom() && t.atom == v {
					nv++
				} else if t.mentions(v) {
					nested = true
				} else {
					rest = append(rest, t)
				}
			}
			if nv == 0 && nested {
				// v only occurs inside a nested select (an element used as an index):
				// that inner index is examined on its own
				continue
			}
			if nv != 1 || nested {
				ok = false
				break
			}
			if first {
				shift, first = rest, false
			} else if !sameMultiset(shift, rest) {
				ok = false
				break
			}
		}
		if !ok || len(shift) == 0 {
			continue
		}
		// v := (- v shift...)
		by := &sx{list: append([]*sx{{atom: "-"}, {atom: v}}, shift...)}
		body = simplifySums(substSx(body, v, by), shift, v)
	}
	n.list[2] = body
	return n
}

// normalizeFormula applies the rewrite to one SMT term given as text.
func normalizeFormula(t string) string {
	if !strings.Contains(t, "forall") && !strings.Contains(t, "exists") {
		return t
	}
	toks := sexprTokens(t)
	if len(toks) == 0 {
		return t
	}
	s, _ := parseSx(toks, 0)
	return normQuant(s).String()
}
