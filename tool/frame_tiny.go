package main

import (
	"fmt"
	"go/ast"
	"go/token"
	"go/types"
	"os"
	"path/filepath"
	"sort"
	"strconv"
	"strings"

	"golang.org/x/tools/go/packages"
)

// Ground obligations for C10 (-tiny): the rules of stripRuntime, read from its
// real switch statement, against the runtime sources of the installed GOROOT.

type stripRules struct {
	exact  map[string]map[string]bool // basename -> function names emptied
	prefix map[string][]string        // basename -> name prefixes emptied
	where  string
}

func (r *stripRules) emptied(base, name string) bool {
	if r.exact[base][name] {
		return true
	}
	for _, p := range r.prefix[base] {
		if strings.HasPrefix(name, p) {
			return true
		}
	}
	return false
}

// extractStripRules interprets `switch basename { case "f.go": ... }` in stripRuntime.
func (u *Universe) extractStripRules() (*stripRules, error) {
	fi := u.fn("", "stripRuntime")
	if fi == nil {
		return nil, fmt.Errorf("stripRuntime not found")
	}
	r := &stripRules{exact: map[string]map[string]bool{}, prefix: map[string][]string{}}
	pos := u.fset.Position(fi.Decl.Pos())
	r.where = fmt.Sprintf("%s:%d", pos.Filename, pos.Line)
	var sw *ast.SwitchStmt
	ast.Inspect(fi.Decl.Body, func(n ast.Node) bool {
		if s, ok := n.(*ast.SwitchStmt); ok && sw == nil {
			if id, ok := s.Tag.(*ast.Ident); ok && id.Name == "basename" {
				sw = s
			}
		}
		return true
	})
	if sw == nil {
		return nil, fmt.Errorf("switch basename not found in stripRuntime")
	}
	str := func(x ast.Expr) (string, bool) {
		bl, ok := x.(*ast.BasicLit)
		if !ok || bl.Kind != token.STRING {
			return "", false
		}
		s, err := strconv.Unquote(bl.Value)
		return s, err == nil
	}
	// does a statement list empty the function body?
	empties := func(stmts []ast.Stmt) bool {
		found := false
		for _, st := range stmts {
			ast.Inspect(st, func(n ast.Node) bool {
				switch n := n.(type) {
				case *ast.AssignStmt:
					if len(n.Lhs) == 1 {
						l := types_ExprString(n.Lhs[0])
						if l == "funcDecl.Body.List" || l == "funcDecl.Body" {
							found = true
						}
					}
				case *ast.CallExpr:
					if id, ok := n.Fun.(*ast.Ident); ok && id.Name == "emptyBody" {
						found = true
					}
				}
				return true
			})
		}
		return found
	}
	isName := func(x ast.Expr) bool { return types_ExprString(x) == "funcDecl.Name.Name" }
	var walk func(base string, stmts []ast.Stmt)
	walk = func(base string, stmts []ast.Stmt) {
		for _, st := range stmts {
			switch st := st.(type) {
			case *ast.SwitchStmt:
				if st.Tag == nil || !isName(st.Tag) {
					continue
				}
				for _, c := range st.Body.List {
					cl := c.(*ast.CaseClause)
					if cl.List == nil {
						walk(base, cl.Body) // default: may hold a prefix rule
						continue
					}
					if !empties(cl.Body) {
						continue
					}
					for _, x := range cl.List {
						if s, ok := str(x); ok {
							if r.exact[base] == nil {
								r.exact[base] = map[string]bool{}
							}
							r.exact[base][s] = true
						}
					}
				}
			case *ast.IfStmt:
				if !empties(st.Body.List) {
					continue
				}
				switch c := st.Cond.(type) {
				case *ast.BinaryExpr:
					if c.Op == token.EQL && isName(c.X) {
						if s, ok := str(c.Y); ok {
							if r.exact[base] == nil {
								r.exact[base] = map[string]bool{}
							}
							r.exact[base][s] = true
						}
					}
				case *ast.CallExpr:
					if types_ExprString(c.Fun) == "strings.HasPrefix" && len(c.Args) == 2 && isName(c.Args[0]) {
						if s, ok := str(c.Args[1]); ok {
							r.prefix[base] = append(r.prefix[base], s)
						}
					}
				}
			}
		}
	}
	for _, c := range sw.Body.List {
		cl := c.(*ast.CaseClause)
		for _, x := range cl.List {
			if base, ok := str(x); ok {
				walk(base, cl.Body)
			}
		}
	}
	return r, nil
}

func types_ExprString(x ast.Expr) string {
	switch x := x.(type) {
	case *ast.Ident:
		return x.Name
	case *ast.SelectorExpr:
		return types_ExprString(x.X) + "." + x.Sel.Name
	case *ast.ParenExpr:
		return types_ExprString(x.X)
	}
	return "?"
}

type rtFunc struct {
	file, name string
	obj        any // *types.Func, or the *rtFunc itself for a callback literal
	calls      map[any]bool
	onlyVia    any // callbacks: the function they were passed to
	direct     bool // calls a low-level stderr writer itself
}

// runtimeFuncs loads the runtime package of the installed GOROOT (sandbox
// GOOS/GOARCH) with type information, so that calls resolve to declarations.
func (u *Universe) runtimeFuncs() ([]*rtFunc, string, error) {
	cfg := &packages.Config{
		Mode: packages.NeedName | packages.NeedFiles | packages.NeedSyntax | packages.NeedTypes | packages.NeedTypesInfo | packages.NeedImports | packages.NeedDeps,
		Dir:  u.repo,
		Env:  append(os.Environ(), "GOFLAGS=-mod=mod", "GOPROXY=off", "GOSUMDB=off", "GOTOOLCHAIN=local"),
	}
	pkgs, err := packages.Load(cfg, "runtime")
	if err != nil || len(pkgs) != 1 {
		return nil, "", fmt.Errorf("cannot load package runtime: %v", err)
	}
	p := pkgs[0]
	if len(p.Errors) > 0 {
		return nil, "", fmt.Errorf("runtime: %v", p.Errors[0])
	}
	var fns []*rtFunc
	dir := ""
	for _, f := range p.Syntax {
		fname := p.Fset.Position(f.Pos()).Filename
		dir = filepath.Dir(fname)
		for _, d := range f.Decls {
			fd, ok := d.(*ast.FuncDecl)
			if !ok || fd.Body == nil {
				continue
			}
			obj, _ := p.TypesInfo.Defs[fd.Name].(*types.Func)
			rf := &rtFunc{file: filepath.Base(fname), name: fd.Name.Name, obj: obj, calls: map[any]bool{}}
			var scan func(into *rtFunc, body ast.Node)
			scan = func(into *rtFunc, body ast.Node) {
				ast.Inspect(body, func(nd ast.Node) bool {
					call, ok := nd.(*ast.CallExpr)
					if !ok {
						return true
					}
					var callee *types.Func
					switch f := ast.Unparen(call.Fun).(type) {
					case *ast.Ident:
						callee, _ = p.TypesInfo.Uses[f].(*types.Func)
					case *ast.SelectorExpr:
						if sel, ok := p.TypesInfo.Selections[f]; ok {
							callee, _ = sel.Obj().(*types.Func)
						} else {
							callee, _ = p.TypesInfo.Uses[f.Sel].(*types.Func)
						}
					}
					if callee == nil {
						return true
					}
					callee = callee.Origin()
					into.calls[callee] = true
					// a function literal passed as an argument runs only if the callee runs it
					skip := map[ast.Node]bool{}
					for _, a := range call.Args {
						if fl, ok := ast.Unparen(a).(*ast.FuncLit); ok {
							cb := &rtFunc{file: into.file, name: into.name + "$callback-of-" + callee.Name(), calls: map[any]bool{}, onlyVia: callee}
							cb.obj = cb
							scan(cb, fl.Body)
							fns = append(fns, cb)
							skip[fl] = true
						}
					}
					if callee.Pkg() == p.Types && callee.Type().(*types.Signature).Recv() == nil {
						switch callee.Name() {
						case "gwrite", "writeErrData", "writeErr":
							into.direct = true
						case "write", "write1":
							if len(call.Args) > 0 {
								if tv, ok := p.TypesInfo.Types[call.Args[0]]; ok && tv.Value != nil && tv.Value.ExactString() == "2" {
									into.direct = true
								}
							}
						}
					}
					if len(skip) > 0 {
						// continue into non-literal children only
						for _, a := range call.Args {
							if !skip[ast.Unparen(a)] {
								scan(into, a)
							}
						}
						scan(into, call.Fun)
						return false
					}
					return true
				})
			}
			scan(rf, fd.Body)
			fns = append(fns, rf)
		}
	}
	return fns, dir, nil
}

// frameTiny: C10 ground obligations.
func (u *Universe) frameTiny() []FrameResult {
	props := []string{"C10"}
	rules, err := u.extractStripRules()
	if err != nil {
		return []FrameResult{{Name: "ground:tiny-strip-rules", Props: props, Backend: "ground", Detail: err.Error()}}
	}
	fns, goroot, err := u.runtimeFuncs()
	if err != nil {
		return []FrameResult{{Name: "ground:tiny-direct-writers-stripped", Props: props, Backend: "ground", Detail: err.Error()}}
	}
	frameTrustedUsed["runtime sources: type-checked on this run from "+goroot+" for the sandbox GOOS/GOARCH; indirect calls through function values are not followed"] = true
	var out []FrameResult
	nrules := 0
	for _, m := range rules.exact {
		nrules += len(m)
	}
	for _, p := range rules.prefix {
		nrules += len(p)
	}
	out = append(out, FrameResult{Name: "ground:tiny-strip-rules", OK: nrules >= 20, Props: props, Backend: "ground",
		Detail: fmt.Sprintf("stripRuntime at %s: %d exact/prefix rules over %d runtime files", rules.where, nrules, len(rules.exact)+len(rules.prefix))})
	// (1) every function that writes to stderr without the print builtins is emptied,
	// or can only be reached through emptied functions
	callers := map[any][]*rtFunc{}
	byObj := map[any]*rtFunc{}
	for _, f := range fns {
		byObj[f.obj] = f
	}
	for _, f := range fns {
		for c := range f.calls {
			callers[c] = append(callers[c], f)
		}
	}
	writerDefs := map[string]bool{"gwrite": true, "writeErrData": true, "writeErr": true, "write": true, "write1": true, "printlock": true, "printunlock": true}
	var covered func(f *rtFunc, seen map[any]bool) bool
	covered = func(f *rtFunc, seen map[any]bool) bool {
		if rules.emptied(f.file, f.name) {
			return true
		}
		if seen[f.obj] {
			return true
		}
		seen[f.obj] = true
		if f.onlyVia != nil {
			// a callback literal: it runs only if the function it was handed to runs it
			if g := byObj[f.onlyVia]; g != nil {
				return covered(g, seen)
			}
			return false
		}
		cs := callers[f.obj]
		if len(cs) == 0 {
			return false // a root that is not emptied
		}
		for _, c := range cs {
			if c.obj == f.obj {
				continue
			}
			if !covered(c, seen) {
				return false
			}
		}
		return true
	}
	var bad, ok []string
	for _, f := range fns {
		if !f.direct || f.file == "print.go" || strings.HasPrefix(f.file, "write_err") || writerDefs[f.name] {
			continue
		}
		if covered(f, map[any]bool{}) {
			ok = append(ok, f.file+":"+f.name)
		} else {
			bad = append(bad, f.file+":"+f.name)
		}
	}
	sort.Strings(bad)
	sort.Strings(ok)
	r1 := FrameResult{Name: "ground:tiny-direct-writers-stripped", OK: len(bad) == 0 && len(ok) > 0, Props: props, Backend: "ground",
		Detail: fmt.Sprintf("runtime functions writing to stderr without print/println: silenced %v; NOT silenced %v", ok, bad)}
	if len(bad) > 0 {
		r1.Witness = "under -tiny the runtime can still print through " + bad[0]
	}
	out = append(out, r1)
	// (2) the rules that validateDirectRuntimeStripping insists on exist and match
	req := map[string][]string{}
	if mp := u.mainPkg(); mp != nil {
		for _, f := range mp.Syntax {
			ast.Inspect(f, func(n ast.Node) bool {
				vs, ok := n.(*ast.ValueSpec)
				if !ok || len(vs.Names) != 1 || vs.Names[0].Name != "requiredDirectRuntimeStrips" || len(vs.Values) != 1 {
					return true
				}
				if cl, ok := vs.Values[0].(*ast.CompositeLit); ok {
					for _, el := range cl.Elts {
						kv := el.(*ast.KeyValueExpr)
						k, _ := strconv.Unquote(kv.Key.(*ast.BasicLit).Value)
						if inner, ok := kv.Value.(*ast.CompositeLit); ok {
							for _, x := range inner.Elts {
								if bl, ok := x.(*ast.BasicLit); ok {
									s, _ := strconv.Unquote(bl.Value)
									req[k] = append(req[k], s)
								}
							}
						}
					}
				}
				return true
			})
		}
	}
	exists := map[string]bool{}
	for _, f := range fns {
		exists[f.file+":"+f.name] = true
	}
	var missing []string
	n := 0
	for file, names := range req {
		for _, nm := range names {
			n++
			if !rules.emptied(file, nm) {
				missing = append(missing, file+":"+nm+" (no strip rule)")
			} else if !exists[file+":"+nm] {
				missing = append(missing, file+":"+nm+" (not in GOROOT)")
			}
		}
	}
	sort.Strings(missing)
	out = append(out, FrameResult{Name: "ground:tiny-required-strips-match", OK: len(missing) == 0 && n > 0, Props: props, Backend: "ground",
		Detail: fmt.Sprintf("requiredDirectRuntimeStrips has %d entries; unmatched: %v", n, missing)})
	// (3) the catalogue of crash printers from the property statement: each one
	// that exists in this GOROOT must be emptied (the print builtins are renamed
	// for the rest)
	catalogue := map[string][]string{
		"panic.go":     {"printpanics", "preprintpanics"},
		"traceback.go": {"traceback", "traceback1", "tracebacktrap", "tracebackothers", "goroutineheader", "printcreatedby", "printAncestorTraceback", "printCgoTraceback", "tracebackHexdump"},
		"runtime1.go":  {"setTraceback"},
		"proc.go":      {"schedtrace"},
		"debuglog.go":  {"printDebugLog"},
		"runtime.go":   {"writeErrStr"},
	}
	var notEmptied []string
	checked := 0
	for file, names := range catalogue {
		for _, nm := range names {
			if !exists[file+":"+nm] {
				continue
			}
			checked++
			if !rules.emptied(file, nm) {
				notEmptied = append(notEmptied, file+":"+nm)
			}
		}
	}
	sort.Strings(notEmptied)
	r3 := FrameResult{Name: "ground:tiny-crash-printers-emptied", OK: len(notEmptied) == 0 && checked >= 10, Props: props, Backend: "ground",
		Detail: fmt.Sprintf("%d crash printing functions of the statement's catalogue exist in this GOROOT; not emptied: %v", checked, notEmptied)}
	if len(notEmptied) > 0 {
		r3.Witness = "a crash under -tiny still runs " + notEmptied[0]
	}
	out = append(out, r3)
	return out
}
