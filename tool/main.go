package main

import (
	"encoding/json"
	"flag"
	"fmt"
	"os"
	"path/filepath"
	"os/exec"
	"regexp"
	"sort"
	"strconv"
	"strings"
	"time"
)

type KnownFinding struct {
	Property   string `json:"property"`
	Obligation string `json:"obligation"`
	What       string `json:"what"`
	Witness    string `json:"witness"`
	Status     string `json:"status"` // known | fixed
	Commit     string `json:"commit,omitempty"`
}

func loadKnown(verif string) []KnownFinding {
	var k struct {
		Findings []KnownFinding `json:"findings"`
	}
	data, err := os.ReadFile(filepath.Join(verif, "known_findings.json"))
	if err != nil {
		return nil
	}
	if err := json.Unmarshal(data, &k); err != nil {
		fmt.Fprintln(os.Stderr, "known_findings.json:", err)
		os.Exit(2)
	}
	return k.Findings
}

func loadClaimedSafety(verif string) map[string]bool {
	m := map[string]bool{}
	var l []string
	data, err := os.ReadFile(filepath.Join(verif, "contracts", "claimed_safety.json"))
	if err == nil {
		json.Unmarshal(data, &l)
	}
	for _, n := range l {
		m[n] = true
	}
	return m
}

func main() {
	// the repository needs the newer pre-installed toolchain; nothing may be fetched
	os.Setenv("PATH", "/opt/veriftools/go1.26.8/bin:"+os.Getenv("PATH"))
	os.Setenv("GOTOOLCHAIN", "local")
	os.Setenv("GOFLAGS", "-mod=mod")
	os.Setenv("GOPROXY", "off")
	os.Setenv("GOSUMDB", "off")
	if len(os.Args) < 2 {
		fmt.Fprintln(os.Stderr, "usage: govc check|dev|baseline|selftest ...")
		os.Exit(2)
	}
	switch os.Args[1] {
	case "check":
		os.Exit(cmdCheck(os.Args[2:]))
	case "dev":
		os.Exit(cmdDev(os.Args[2:]))
	case "baseline":
		os.Exit(cmdBaseline(os.Args[2:]))
	case "selftest":
		os.Exit(cmdSelftest(os.Args[2:]))
	case "sync":
		os.Exit(cmdSync(os.Args[2:]))
	case "replay":
		os.Exit(cmdReplay(os.Args[2:]))
	}
	fmt.Fprintln(os.Stderr, "unknown subcommand", os.Args[1])
	os.Exit(2)
}

// mutationOverlay builds an in-memory overlay from GOVC_MUTATE="file::old=>new"
// (several separated by ";;"); /repo itself is never touched.
func mutationOverlay(repo string) map[string][]byte {
	m := os.Getenv("GOVC_MUTATE")
	if m == "" {
		return nil
	}
	ov := map[string][]byte{}
	for _, one := range strings.Split(m, ";;") {
		fp, rest, ok := strings.Cut(one, "::")
		oldS, newS, ok2 := strings.Cut(rest, "=>")
		if !ok || !ok2 {
			fmt.Fprintln(os.Stderr, "GOVC_MUTATE: file::old=>new")
			os.Exit(2)
		}
		path := filepath.Join(repo, fp)
		src, have := ov[path]
		if !have {
			var err error
			src, err = os.ReadFile(path)
			if err != nil {
				fmt.Fprintln(os.Stderr, err)
				os.Exit(2)
			}
		}
		if !strings.Contains(string(src), oldS) {
			fmt.Fprintf(os.Stderr, "GOVC_MUTATE: anchor %q not found in %s\n", oldS, fp)
			os.Exit(2)
		}
		ov[path] = []byte(strings.Replace(string(src), oldS, newS, 1))
	}
	return ov
}

func envOr(k, d string) string {
	if v := os.Getenv(k); v != "" {
		return v
	}
	return d
}

type checkOpts struct {
	repo, verif string
	prop        string
	tier        string
	mirror      bool
	overlay     map[string][]byte
	quiet       bool
	noEvidence  bool
	fnFilter    string
	keep        bool
}

type checkOutcome struct {
	results    []*Result
	reports    []FuncReport
	violations []*Result
	known      []string
	binding    []string
	wall       float64
	loadSecs   float64
	unclaimed  []*Result
	vacuous    []*Result
	frame      []FrameResult
	standins   []Standin
}

// Standin is a bounded check of real code that accompanies a property whose
// deductive fragment cannot reach part of the statement. It is labelled
// bounded everywhere and never counted among the obligations.
type Standin struct {
	Name    string  `json:"name"`
	Bounded bool    `json:"bounded"`
	Bound   string  `json:"bound"`
	OK      bool    `json:"ok"`
	Secs    float64 `json:"secs"`
	Summary string  `json:"summary"`
	Output  string  `json:"-"`
	Failing string  `json:"failing_input,omitempty"`
}

func cmdCheck(args []string) int {
	fs := flag.NewFlagSet("check", flag.ExitOnError)
	prop := fs.String("prop", "", "property id")
	tier := fs.String("tier", envOr("VERIF_TIER", "quick"), "quick|thorough")
	repo := fs.String("repo", envOr("VERIF_REPO", "/repo"), "repository")
	verif := fs.String("verif", envOr("VERIF_DIR", "/verif"), "verif dir")
	mirror := fs.Bool("mirror", os.Getenv("GOVC_CONTRACTS") == "mirror", "read contracts from /verif/contracts")
	keep := fs.Bool("keep", false, "keep SMT files")
	fs.Parse(args)
	if *prop == "" {
		fmt.Fprintln(os.Stderr, "check: -prop required")
		return 2
	}
	o := &checkOpts{repo: *repo, verif: *verif, prop: *prop, tier: *tier, mirror: *mirror, keep: *keep}
	out, err := runCheck(o)
	if err != nil {
		fmt.Fprintln(os.Stderr, "govc:", err)
		// a tree that does not load cannot be checked: report as violation of the binding
		rp := writeReplay(o, "load-error", map[string]any{"error": err.Error()})
		fmt.Printf("VIOLATION property=%s replay=%s obligation=load no-failing-input-found\n", o.prop, rp)
		return 1
	}
	if o.prop == "C05" && os.Getenv("GOVC_NO_STANDIN") == "" {
		out.standins = append(out.standins, runLiteralStandin(o))
	}
	return report(o, out)
}

var rxStandinFail = regexp.MustCompile(`STANDIN-FAIL seed=(\d+)`)

// runLiteralStandin runs the bounded round-trip check of the literal
// obfuscators (standins/c05_roundtrip_test.go) through go test -overlay.
func runLiteralStandin(o *checkOpts) Standin {
	seeds := "2"
	if o.tier == "thorough" {
		seeds = "12"
	}
	st := Standin{Name: "bounded:literal-round-trip", Bounded: true,
		Bound: seeds + " seeds x 18 literal lengths (7..2049 bytes) x {string, folded string, []byte, *[]byte, [N]byte, local string}; real literals.Obfuscate, program built and run"}
	src := filepath.Join(o.verif, "standins", "c05_roundtrip_test.go")
	if _, err := os.Stat(src); err != nil {
		st.Summary = "stand-in source missing: " + err.Error()
		return st
	}
	dir, err := os.MkdirTemp("", "govc-standin-")
	if err != nil {
		st.Summary = err.Error()
		return st
	}
	defer os.RemoveAll(dir)
	ov := filepath.Join(dir, "overlay.json")
	data, _ := json.Marshal(map[string]any{"Replace": map[string]string{filepath.Join(o.repo, "internal", "literals", "zz_verif_standin_test.go"): src}})
	os.WriteFile(ov, data, 0o644)
	t0 := time.Now()
	cmd := exec.Command("go", "test", "-overlay", ov, "-vet=off", "-count=1", "-timeout", "1200s", "-v", "-run", "^TestVerifStandinRoundTrip$", "./internal/literals")
	cmd.Dir = o.repo
	cmd.Env = append(os.Environ(), "VERIF_STANDIN_SEEDS="+seeds)
	outb, _ := cmd.CombinedOutput()
	st.Secs = round2(time.Since(t0).Seconds())
	st.Output = string(outb)
	for _, l := range strings.Split(st.Output, "\n") {
		if strings.HasPrefix(l, "STANDIN-OK") {
			st.OK = true
			st.Summary = l
		}
	}
	if !st.OK {
		if m := rxStandinFail.FindStringSubmatch(st.Output); m != nil {
			st.Failing = "seed=" + m[1]
		}
		st.Summary = "round trip failed or the harness did not run"
	}
	return st
}

func runCheck(o *checkOpts) (*checkOutcome, error) {
	t0 := time.Now()
	u, err := loadUniverse(o.repo, o.verif, o.overlay, o.mirror)
	if err != nil {
		return nil, err
	}
	out := &checkOutcome{loadSecs: time.Since(t0).Seconds()}
	claimed := loadClaimedSafety(o.verif)
	var obls []*Obl
	for _, fi := range u.contractsFor(o.prop) {
		if o.fnFilter != "" && !strings.Contains(fi.Key, o.fnFilter) {
			continue
		}
		os_, rep := u.verifyFunc(fi)
		out.reports = append(out.reports, rep)
		if rep.Error != "" {
			out.binding = append(out.binding, rep.Name+": "+rep.Error)
		}
		for _, ob := range os_ {
			if strings.HasPrefix(ob.Kind, "safety") && !claimed[ob.Name] && o.prop != "" && !o.keep {
				continue
			}
			if strings.HasPrefix(ob.Note, "props:") && o.prop != "" && !hasProp(strings.Split(ob.Note[6:], ","), o.prop) {
				continue
			}
			obls = append(obls, ob)
		}
	}
	for _, l := range u.cs.Lemmas {
		if o.prop == "" || hasProp(l.Props, o.prop) {
			if o.fnFilter != "" && !strings.Contains(l.Name, o.fnFilter) {
				continue
			}
			obls = append(obls, u.lemmaObl(l))
		}
	}
	for _, b := range u.bindingErrs {
		out.binding = append(out.binding, b)
	}
	// frame obligations (goframe back end)
	out.frame = u.frameObligations(o.prop)
	dir, err := os.MkdirTemp("", "govc-smt-")
	if err != nil {
		return nil, err
	}
	if !o.keep {
		defer os.RemoveAll(dir)
	} else {
		fmt.Fprintln(os.Stderr, "smt dir:", dir)
	}
	timeout, needTwo := 10, false
	if o.tier == "thorough" {
		timeout, needTwo = 60, true
	}
	for _, ob := range obls {
		if u.knownFailing[ob.Name] {
			ob.Quick = true // a listed known finding: only confirm briefly whether it still fails
		}
	}
	out.results = u.dischargeAll(obls, dir, timeout, needTwo, 16)
	// Second chance for undecided obligations (time-out / unknown, never for a sat answer):
	// a load spike on the machine must not turn into an alarm. They are re-run a few at a
	// time, when nothing else competes for the cores, with three times the budget.
	if os.Getenv("GOVC_NO_RETRY") == "" {
		var again []int
		for i, r := range out.results {
			if r.Obl.Expect != "sat" && !r.Obl.Quick && (r.Status == "timeout" || r.Status == "unknown") {
				again = append(again, i)
			}
		}
		if len(again) > 0 && len(again) <= 24 {
			sub := make([]*Obl, len(again))
			for k, i := range again {
				sub[k] = obls[i]
			}
			rdir := filepath.Join(dir, "retry")
			os.MkdirAll(rdir, 0o755)
			res2 := u.dischargeAll(sub, rdir, timeout*3, needTwo, 4)
			for k, i := range again {
				first := out.results[i]
				res2[k].Tried = append(append([]string{}, first.Tried...), append([]string{"retry:"}, res2[k].Tried...)...)
				res2[k].AllSecs += first.AllSecs
				out.results[i] = res2[k]
			}
		}
	}
	for i, r := range out.results {
		switch {
		case r.Obl.Expect == "sat":
			if r.Status == "unsat" {
				out.vacuous = append(out.vacuous, r)
			}
		case r.Status != "unsat":
			if r.Status == "sat" {
				r.Model = u.getModel(r.Obl, dir, i, timeout)
			}
			// keep the SMT text for the replay file
			if data, err := os.ReadFile(r.File); err == nil {
				r.Output = r.Output + "\n;;;; SMT\n" + string(data)
			}
			out.violations = append(out.violations, r)
		}
	}
	out.wall = time.Since(t0).Seconds()
	return out, nil
}

var rxUnsafe = regexp.MustCompile(`[^A-Za-z0-9_.#:-]+`)

func writeReplay(o *checkOpts, name string, body map[string]any) string {
	dir := filepath.Join(o.verif, "replay", o.prop)
	os.MkdirAll(dir, 0o755)
	p := filepath.Join(dir, rxUnsafe.ReplaceAllString(name, "_")+".json")
	body["property"] = o.prop
	body["obligation"] = name
	data, _ := json.MarshalIndent(body, "", " ")
	os.WriteFile(p, data, 0o644)
	return p
}

func report(o *checkOpts, out *checkOutcome) int {
	known := loadKnown(o.verif)
	isKnown := func(name string) *KnownFinding {
		for i := range known {
			if known[i].Property == o.prop && known[i].Obligation == name && known[i].Status == "known" {
				return &known[i]
			}
		}
		return nil
	}
	exit := 0
	seenKnown := map[string]bool{}
	viol := 0
	emit := func(name string, body map[string]any, tail string) {
		if k := isKnown(name); k != nil {
			if !seenKnown[name] {
				fmt.Printf("KNOWN-FINDING: property=%s %s: %s\n", o.prop, name, k.What)
				seenKnown[name] = true
			}
			return
		}
		rp := writeReplay(o, name, body)
		fmt.Printf("VIOLATION property=%s replay=%s obligation=%s %s\n", o.prop, rp, name, tail)
		viol++
		exit = 1
	}
	byName := map[string][]*Result{}
	for _, r := range out.violations {
		byName[r.Obl.Name] = append(byName[r.Obl.Name], r)
	}
	names := sortedKeys(byName)
	for _, n := range names {
		rs := byName[n]
		r := rs[0]
		body := map[string]any{
			"kind": r.Obl.Kind, "position": r.Obl.Pos, "status": r.Status, "solvers": r.Tried,
			"instances_failed": len(rs), "solver_output": r.Output, "model": r.Model,
		}
		tail := "no-failing-input-found"
		if rep := tryReplay(o, r, body); rep != "" {
			tail = rep
		}
		emit(n, body, tail)
	}
	for _, r := range out.vacuous {
		emit(r.Obl.Name, map[string]any{"kind": "vacuity", "status": "unsat", "note": "path condition is unsatisfiable: contract or path is vacuous"}, "no-failing-input-found")
	}
	for _, b := range out.binding {
		name := "binding:" + strings.SplitN(b, ":", 2)[0]
		emit(name, map[string]any{"kind": "binding", "error": b}, "no-failing-input-found")
	}
	for _, f := range out.frame {
		if !f.OK {
			emit(f.Name, map[string]any{"kind": "frame", "detail": f.Detail, "backend": "goframe", "witness": f.Witness}, "no-failing-input-found")
		}
	}
	for _, sd := range out.standins {
		if !sd.OK {
			tail := "no-failing-input-found"
			if sd.Failing != "" {
				tail = "failing-input=" + sd.Failing + " (bounded stand-in run on the real code)"
			}
			emit(sd.Name, map[string]any{"kind": "bounded-standin", "bound": sd.Bound, "output": sd.Output, "failing_input": sd.Failing}, tail)
		}
	}
	if !o.noEvidence && os.Getenv("GOVC_NO_EVIDENCE") == "" {
		writeEvidence(o, out, viol, sortedKeys(seenKnown))
	}
	if !o.quiet {
		n, d := 0, 0
		for _, r := range out.results {
			if r.Obl.Expect == "sat" {
				continue
			}
			n++
			if r.Status == "unsat" {
				d++
			}
		}
		fo := 0
		for _, f := range out.frame {
			if f.OK {
				fo++
			}
		}
		fmt.Printf("property %s: %d/%d SMT obligations discharged, %d/%d frame obligations, %d functions, %.1fs (load %.1fs)\n",
			o.prop, d, n, fo, len(out.frame), len(out.reports), out.wall, out.loadSecs)
	}
	return exit
}

func writeEvidence(o *checkOpts, out *checkOutcome, violations int, knownSeen []string) {
	seed, _ := strconv.Atoi(os.Getenv("VERIF_SEED"))
	byBackend := map[string]map[string]float64{}
	n, d := 0, 0
	var slow []map[string]any
	var samples []any
	covers := 0
	isKnown := map[string]bool{}
	for _, k := range knownSeen {
		isKnown[k] = true
	}
	for _, r := range out.results {
		if r.Obl.Expect == "sat" {
			covers++
			continue
		}
		if isKnown[r.Obl.Name] {
			continue // listed known finding: reported separately, not counted as an obligation of the proof
		}
		n++
		if r.Status == "unsat" {
			d++
			b := byBackend[r.Solver]
			if b == nil {
				b = map[string]float64{}
				byBackend[r.Solver] = b
			}
			b["count"]++
			b["secs"] += r.Secs
		}
		if len(samples) < 6 && (n%7 == 1) {
			samples = append(samples, map[string]any{"obligation": r.Obl.Name, "kind": r.Obl.Kind, "at": r.Obl.Pos, "status": r.Status, "solver": r.Solver, "pc_conjuncts": len(r.Obl.PC), "goal_chars": len(r.Obl.Goal)})
		}
	}
	rs := append([]*Result(nil), out.results...)
	sort.Slice(rs, func(i, j int) bool { return rs[i].AllSecs > rs[j].AllSecs })
	for i := 0; i < len(rs) && i < 5; i++ {
		slow = append(slow, map[string]any{"obligation": rs[i].Obl.Name, "secs": round2(rs[i].AllSecs), "solver": rs[i].Solver})
	}
	fn, fd := 0, 0
	var frameSamples []any
	for _, f := range out.frame {
		if isKnown[f.Name] {
			continue
		}
		fn++
		if f.OK {
			fd++
		}
		if len(frameSamples) < 4 {
			frameSamples = append(frameSamples, map[string]any{"obligation": f.Name, "backend": f.Backend, "ok": f.OK, "detail": f.Detail})
		}
	}
	if fd > 0 {
		byBackend["goframe+ground"] = map[string]float64{"count": float64(fd)}
	}
	samples = append(samples, frameSamples...)
	trusted := map[string]bool{}
	var abstracted []string
	for _, r := range out.reports {
		for _, a := range r.Assumed {
			trusted[a] = true
		}
		for _, a := range r.Abstracted {
			abstracted = append(abstracted, r.Name+": "+a)
		}
		if r.Trusted != "" {
			trusted["trusted contract (body not verified) "+r.Name+": "+r.Trusted] = true
		}
	}
	for _, t := range frameTrusted(o.prop) {
		trusted[t] = true
	}
	tb := sortStrings(trusted)
	if len(samples) == 0 {
		samples = append(samples, "none")
	}
	ev := map[string]any{
		"property_id": o.prop,
		"tier":        o.tier,
		"seed":        seed,
		"level":       "proof",
		"wall_s":      round2(out.wall),
		"violations":  violations,
		"coverage": map[string]any{
			"obligations":          n + fn,
			"discharged":           d + fd,
			"checker_cmd":          fmt.Sprintf("/verif/bin/govc check -prop %s -tier %s", o.prop, o.tier),
			"trusted_base":         tb,
			"samples":              samples,
			"functions":            out.reports,
			"by_backend":           byBackend,
			"slowest":              slow,
			"vacuity_covers":       covers,
			"vacuous":              len(out.vacuous),
			"abstracted":           abstracted,
			"known_findings_seen":  knownSeen,
			"bounded_standins":     out.standins,
			"smt_obligations":      n,
			"frame_obligations":    fn,
			"load_s":               round2(out.loadSecs),
			"explanation":          "obligations are generated on every run from the typed AST of /repo's working tree (go/packages, tag verif) and discharged by z3-new, cvc5 and z3; frame obligations by the goframe effect pass",
		},
		"assumptions": []string{
			"termination is not proved",
			"calls to functions without a contract are havocked; functions listed in trusted_base behave as their assumed contracts say",
			"int and int64 arithmetic is mathematical only where a no-overflow obligation was discharged (claimed safety set); fixed-width arithmetic wraps as in Go",
			"SHA-256 is treated as an uninterpreted function; collisions are ignored",
		},
	}
	os.MkdirAll(filepath.Join(o.verif, "evidence"), 0o755)
	data, _ := json.MarshalIndent(ev, "", " ")
	os.WriteFile(filepath.Join(o.verif, "evidence", o.prop+".json"), data, 0o644)
}

func round2(f float64) float64 { return float64(int(f*100+0.5)) / 100 }

// ---- dev: run one or all functions and print every obligation ----

func cmdDev(args []string) int {
	fs := flag.NewFlagSet("dev", flag.ExitOnError)
	prop := fs.String("prop", "", "property filter")
	fn := fs.String("fn", "", "function key substring")
	repo := fs.String("repo", "/repo", "")
	verif := fs.String("verif", "/verif", "")
	keep := fs.Bool("keep", false, "keep smt files")
	all := fs.Bool("all", false, "print discharged obligations too")
	timeout := fs.Int("t", 10, "solver timeout")
	fs.Parse(args)
	u, err := loadUniverse(*repo, *verif, mutationOverlay(*repo), true)
	if err != nil {
		fmt.Fprintln(os.Stderr, err)
		return 2
	}
	for _, b := range u.bindingErrs {
		fmt.Println("BINDING:", b)
	}
	dir, _ := os.MkdirTemp("", "govc-dev-")
	if !*keep {
		defer os.RemoveAll(dir)
	} else {
		fmt.Println("smt dir:", dir)
	}
	var obls []*Obl
	for _, fi := range u.contractsFor(*prop) {
		if *fn != "" && !strings.Contains(fi.Key, *fn) {
			continue
		}
		t0 := time.Now()
		os_, rep := u.verifyFunc(fi)
		fmt.Printf("== %s: %d obligations, %d return paths, gen %.2fs\n", rep.Name, len(os_), rep.Paths, time.Since(t0).Seconds())
		if rep.Error != "" {
			fmt.Println("   ERROR:", rep.Error)
		}
		if len(rep.Abstracted) > 0 {
			fmt.Println("   abstracted:", strings.Join(rep.Abstracted, "; "))
		}
		obls = append(obls, os_...)
	}
	for _, l := range u.cs.Lemmas {
		if (*prop == "" || hasProp(l.Props, *prop)) && (*fn == "" || strings.Contains(l.Name, *fn)) {
			obls = append(obls, u.lemmaObl(l))
		}
	}
	t0 := time.Now()
	res := u.dischargeAll(obls, dir, *timeout, false, 16)
	counts := map[string]int{}
	for _, r := range res {
		ok := r.Status == "unsat"
		if r.Obl.Expect == "sat" {
			ok = r.Status != "unsat"
		}
		if ok {
			counts["ok"]++
		} else {
			counts[r.Status]++
		}
		if !ok || *all {
			fmt.Printf("   %-70s %-8s %-7s %5.2fs %s %s\n", r.Obl.Name, r.Status, r.Solver, r.AllSecs, filepath.Base(r.File), r.Obl.Pos)
			if r.Status == "error" {
				fmt.Println("      ", firstLines(r.Output, 3))
			}
		}
	}
	fmt.Printf("summary: %v in %.1fs\n", counts, time.Since(t0).Seconds())
	for _, f := range u.frameObligations(*prop) {
		if !f.OK || *all {
			fmt.Printf("   FRAME %-60s ok=%v %s\n", f.Name, f.OK, f.Detail)
		}
	}
	return 0
}

// cmdBaseline records which safety obligations discharge on the current tree.
func cmdBaseline(args []string) int {
	fs := flag.NewFlagSet("baseline", flag.ExitOnError)
	repo := fs.String("repo", "/repo", "")
	verif := fs.String("verif", "/verif", "")
	fs.Parse(args)
	u, err := loadUniverse(*repo, *verif, nil, true)
	if err != nil {
		fmt.Fprintln(os.Stderr, err)
		return 2
	}
	dir, _ := os.MkdirTemp("", "govc-base-")
	defer os.RemoveAll(dir)
	var obls []*Obl
	for _, fi := range u.contractsFor("") {
		os_, _ := u.verifyFunc(fi)
		for _, o := range os_ {
			if strings.HasPrefix(o.Kind, "safety") {
				obls = append(obls, o)
			}
		}
	}
	res := u.dischargeAll(obls, dir, 3, false, 16)
	ok := map[string]bool{}
	bad := map[string]bool{}
	for _, r := range res {
		if r.Status == "unsat" && r.AllSecs < 1.5 {
			ok[r.Obl.Name] = true
		} else {
			bad[r.Obl.Name] = true
		}
	}
	var list []string
	for n := range ok {
		if !bad[n] {
			list = append(list, n)
		}
	}
	sort.Strings(list)
	data, _ := json.MarshalIndent(list, "", " ")
	os.WriteFile(filepath.Join(*verif, "contracts", "claimed_safety.json"), data, 0o644)
	fmt.Printf("claimed %d safety obligations (%d not claimed)\n", len(list), len(bad))
	return 0
}

// cmdSync copies the contract mirror into the guarded files of /repo.
func cmdSync(args []string) int {
	repo, verif := "/repo", "/verif"
	for _, p := range repoPkgs {
		rel := relOf(p)
		mirror, _ := contractPathFor(repo, verif, rel, true)
		data, err := os.ReadFile(mirror)
		if err != nil {
			continue
		}
		dst := filepath.Join(repo, rel, "zz_verif_contracts.go")
		old, _ := os.ReadFile(dst)
		if string(old) == string(data) {
			continue
		}
		if err := os.WriteFile(dst, data, 0o644); err != nil {
			fmt.Fprintln(os.Stderr, err)
			return 1
		}
		fmt.Println("synced", dst)
	}
	return 0
}
