package main

import (
	"fmt"
	"go/ast"
	"go/token"
	"go/types"
	"sort"
	"strings"
)

// goframe: a modular effect pass over the typed AST of /repo. It decides frame
// obligations (what code may depend on or touch), which are not SMT questions.

type effSite struct {
	kind   string // global-rand | clock | pid | env-read | fs-write | exec | map-order
	detail string
	pos    token.Pos
	fi     *FuncInfo
	ord    int
	node   ast.Node
}

type callGraph struct {
	edges map[*FuncInfo]map[*FuncInfo]bool
}

func (u *Universe) callGraph() *callGraph {
	if u.cg != nil {
		return u.cg
	}
	g := &callGraph{edges: map[*FuncInfo]map[*FuncInfo]bool{}}
	// methods by name for interface dispatch
	byName := map[string][]*FuncInfo{}
	for _, fi := range u.funcs {
		if fi.Decl.Recv != nil {
			byName[fi.Obj.Name()] = append(byName[fi.Obj.Name()], fi)
		}
	}
	for _, fi := range u.funcs {
		info := fi.Pkg.TypesInfo
		add := func(to *FuncInfo) {
			if g.edges[fi] == nil {
				g.edges[fi] = map[*FuncInfo]bool{}
			}
			g.edges[fi][to] = true
		}
		ast.Inspect(fi.Decl.Body, func(n ast.Node) bool {
			switch n := n.(type) {
			case *ast.Ident:
				if fn, ok := info.Uses[n].(*types.Func); ok {
					if to := u.byObj[fn.Origin()]; to != nil {
						add(to)
					}
				}
			case *ast.SelectorExpr:
				if sel, ok := info.Selections[n]; ok {
					if fn, ok := sel.Obj().(*types.Func); ok {
						if to := u.byObj[fn.Origin()]; to != nil {
							add(to)
						} else if _, isIface := sel.Recv().Underlying().(*types.Interface); isIface {
							// interface call: every repo method of that name whose receiver implements it
							iface := sel.Recv().Underlying().(*types.Interface)
							for _, m := range byName[fn.Name()] {
								rt := m.Obj.Type().(*types.Signature).Recv().Type()
								if types.Implements(rt, iface) || types.Implements(types.NewPointer(rt), iface) {
									add(m)
								}
							}
						}
					}
				}
			}
			return true
		})
	}
	u.cg = g
	return g
}

func (u *Universe) reachable(roots ...*FuncInfo) map[*FuncInfo]bool {
	g := u.callGraph()
	seen := map[*FuncInfo]bool{}
	var visit func(f *FuncInfo)
	visit = func(f *FuncInfo) {
		if f == nil || seen[f] {
			return
		}
		seen[f] = true
		for to := range g.edges[f] {
			visit(to)
		}
	}
	for _, r := range roots {
		visit(r)
	}
	return seen
}

func (u *Universe) fn(pkgRel, key string) *FuncInfo {
	p := garblePath
	if pkgRel != "" {
		p += "/" + pkgRel
	}
	return u.funcs[p+"."+key]
}

var globalRandFuncs = map[string]bool{}

func classifyCallee(name string, fn *types.Func) (kind string) {
	pkg := ""
	if fn.Pkg() != nil {
		pkg = fn.Pkg().Path()
	}
	sig, _ := fn.Type().(*types.Signature)
	isMethod := sig != nil && sig.Recv() != nil
	switch {
	case (pkg == "math/rand" || pkg == "math/rand/v2") && !isMethod && !strings.HasPrefix(fn.Name(), "New"):
		return "global-rand"
	case pkg == "crypto/rand":
		return "global-rand"
	case name == "time.Now" || name == "time.Since" || name == "time.Until":
		return "clock"
	case name == "os.Getpid" || name == "os.Getppid" || name == "os.Hostname":
		return "pid"
	case name == "os.Getenv" || name == "os.LookupEnv" || name == "os.Environ":
		return "env-read"
	case name == "os.Remove" || name == "os.RemoveAll" || name == "os.WriteFile" || name == "os.Create" || name == "os.CreateTemp" ||
		name == "os.OpenFile" || name == "os.Mkdir" || name == "os.MkdirAll" || name == "os.MkdirTemp" || name == "os.Rename" ||
		name == "os.Chtimes" || name == "os.Chmod" || name == "os.Symlink" || name == "os.Truncate" || name == "os.Link":
		return "fs-write"
	case strings.HasPrefix(name, "(*github.com/rogpeppe/go-internal/cache.Cache).Put"):
		return "fs-write"
	case pkg == "os/exec" && (fn.Name() == "Command" || fn.Name() == "CommandContext"):
		return "exec"
	case name == "maps.Keys" || name == "maps.Values" || name == "maps.All" || strings.HasSuffix(name, "ssa.Program).AllPackages"):
		return "map-order"
	}
	return ""
}

// sitesIn lists the effect sites of one function (closures included).
func (u *Universe) sitesIn(fi *FuncInfo) []effSite {
	info := fi.Pkg.TypesInfo
	var out []effSite
	counts := map[string]int{}
	add := func(kind, detail string, n ast.Node) {
		out = append(out, effSite{kind: kind, detail: detail, pos: n.Pos(), fi: fi, ord: counts[kind], node: n})
		counts[kind]++
	}
	ast.Inspect(fi.Decl.Body, func(n ast.Node) bool {
		switch n := n.(type) {
		case *ast.RangeStmt:
			if t := info.TypeOf(n.X); t != nil {
				if _, ok := t.Underlying().(*types.Map); ok {
					add("map-order", "range over "+types.ExprString(n.X), n)
				}
			}
		case *ast.CallExpr:
			var fn *types.Func
			var recvT types.Type
			switch f := ast.Unparen(n.Fun).(type) {
			case *ast.Ident:
				fn, _ = info.Uses[f].(*types.Func)
			case *ast.SelectorExpr:
				if sel, ok := info.Selections[f]; ok {
					fn, _ = sel.Obj().(*types.Func)
					recvT = info.TypeOf(f.X)
				} else {
					fn, _ = info.Uses[f.Sel].(*types.Func)
				}
			}
			if fn == nil {
				return true
			}
			name := calleeName(fn, recvT)
			if k := classifyCallee(name, fn); k != "" {
				d := name
				if k == "env-read" && len(n.Args) > 0 {
					if tv, ok := info.Types[n.Args[0]]; ok && tv.Value != nil {
						d += "(" + tv.Value.ExactString() + ")"
					}
				}
				add(k, d, n)
			}
		}
		return true
	})
	return out
}

func funcLabel(fi *FuncInfo) string {
	n := shortName(fi.Pkg.PkgPath + "." + fi.Key)
	if fi.Pkg.PkgPath == garblePath {
		n = "main." + fi.Key
	}
	return n
}

// ---- map-order classification ----

// mapOrderClosed reports whether the iteration order of a map range cannot
// reach the function's output: the keys are sorted before use, or the body is
// order-insensitive by construction.
func (u *Universe) mapOrderClosed(s effSite) (bool, string) {
	info := s.fi.Pkg.TypesInfo
	rs, ok := s.node.(*ast.RangeStmt)
	if !ok {
		// a call such as maps.Keys(m): closed if it is the argument of slices.Sorted*,
		// or if it is ranged over by a loop that is itself order-insensitive
		call := s.node.(*ast.CallExpr)
		closed, why := false, "call returning map-ordered data"
		ast.Inspect(s.fi.Decl.Body, func(n ast.Node) bool {
			switch n := n.(type) {
			case *ast.CallExpr:
				name := types.ExprString(n.Fun)
				if strings.HasPrefix(name, "slices.Sorted") && len(n.Args) > 0 && ast.Unparen(n.Args[0]) == call {
					closed, why = true, "passed directly to "+name
				}
			case *ast.RangeStmt:
				if ast.Unparen(n.X) == call {
					s2 := s
					s2.node = n
					closed, why = u.mapOrderClosed(s2)
				}
			case *ast.AssignStmt:
				// x := call(); slices.SortFunc(x, ...) before any other use of x
				if len(n.Lhs) == 1 && len(n.Rhs) == 1 && ast.Unparen(n.Rhs[0]) == call {
					if id, ok := n.Lhs[0].(*ast.Ident); ok {
						if obj := info.ObjectOf(id); obj != nil && sortedBeforeUse(info, s.fi.Decl.Body, obj, n.End()) {
							closed, why = true, "assigned to "+id.Name+" and sorted before any other use"
						}
					}
				}
			}
			return true
		})
		return closed, why
	}
	// (a) collect-then-sort
	var collected []types.Object
	onlyAppends := true
	var walk func(st ast.Stmt)
	walk = func(st ast.Stmt) {
		switch st := st.(type) {
		case *ast.AssignStmt:
			if len(st.Lhs) == 1 && len(st.Rhs) == 1 {
				if call, ok := st.Rhs[0].(*ast.CallExpr); ok {
					if id, ok := call.Fun.(*ast.Ident); ok && id.Name == "append" {
						if l, ok := st.Lhs[0].(*ast.Ident); ok {
							collected = append(collected, info.ObjectOf(l))
							return
						}
					}
				}
			}
			onlyAppends = false
		case *ast.IfStmt:
			for _, b := range st.Body.List {
				walk(b)
			}
			if st.Else != nil {
				walk(st.Else)
			}
		case *ast.BlockStmt:
			for _, b := range st.List {
				walk(b)
			}
		case *ast.BranchStmt:
			if st.Tok != token.CONTINUE {
				onlyAppends = false
			}
		default:
			onlyAppends = false
		}
	}
	for _, b := range rs.Body.List {
		walk(b)
	}
	if onlyAppends && len(collected) > 0 {
		sorted := map[types.Object]bool{}
		ast.Inspect(s.fi.Decl.Body, func(n ast.Node) bool {
			call, ok := n.(*ast.CallExpr)
			if !ok || call.Pos() < rs.End() || len(call.Args) == 0 {
				return true
			}
			name := types.ExprString(call.Fun)
			if strings.HasPrefix(name, "sort.") || strings.HasPrefix(name, "slices.Sort") {
				if id, ok := ast.Unparen(call.Args[0]).(*ast.Ident); ok {
					sorted[info.ObjectOf(id)] = true
				}
			}
			return true
		})
		all := true
		for _, o := range collected {
			if !sorted[o] {
				all = false
			}
		}
		if all {
			return true, "keys collected and sorted before use"
		}
	}
	// (b) order-insensitive body: only writes to map entries / set membership,
	// commutative counters, deletes, logging, constant early returns
	insensitive := true
	var chk func(st ast.Stmt)
	chk = func(st ast.Stmt) {
		switch st := st.(type) {
		case *ast.AssignStmt:
			for i, l := range st.Lhs {
				switch l := ast.Unparen(l).(type) {
				case *ast.IndexExpr:
					if t := info.TypeOf(l.X); t != nil {
						if _, ok := t.Underlying().(*types.Map); ok {
							// m[k] = append(m[k], x) builds a list in iteration order
							if i < len(st.Rhs) {
								if c, isCall := st.Rhs[i].(*ast.CallExpr); isCall && types.ExprString(c.Fun) == "append" {
									insensitive = false
								}
							}
							continue
						}
					}
					insensitive = false
				case *ast.Ident:
					if st.Tok == token.DEFINE || l.Name == "_" {
						continue // loop-local
					}
					if st.Tok == token.ADD_ASSIGN || st.Tok == token.OR_ASSIGN || st.Tok == token.XOR_ASSIGN || st.Tok == token.AND_ASSIGN {
						if t := info.TypeOf(l); t != nil {
							if b, ok := t.Underlying().(*types.Basic); ok && b.Info()&(types.IsInteger|types.IsBoolean) != 0 {
								continue
							}
						}
					}
					// assignment to a variable declared inside the loop body is local
					if o := info.ObjectOf(l); o != nil && o.Pos() > rs.Body.Lbrace && o.Pos() < rs.Body.Rbrace {
						continue
					}
					insensitive = false
				case *ast.SelectorExpr:
					// per-element update: v.f = ... where v is the loop's own key/value variable
					root := l.X
					for {
						if s2, ok := ast.Unparen(root).(*ast.SelectorExpr); ok {
							root = s2.X
							continue
						}
						break
					}
					if id, ok := ast.Unparen(root).(*ast.Ident); ok {
						o := info.ObjectOf(id)
						if isRangeVar(info, rs, o) {
							continue
						}
					}
					insensitive = false
				default:
					insensitive = false
				}
			}
		case *ast.IncDecStmt:
		case *ast.ExprStmt:
			call, ok := st.X.(*ast.CallExpr)
			if !ok {
				insensitive = false
				return
			}
			name := types.ExprString(call.Fun)
			if name == "delete" || strings.HasPrefix(name, "log.") || name == "panic" {
				return
			}
			insensitive = false
		case *ast.IfStmt:
			if st.Init != nil {
				chk(st.Init)
			}
			for _, b := range st.Body.List {
				chk(b)
			}
			if st.Else != nil {
				chk(st.Else)
			}
		case *ast.BlockStmt:
			for _, b := range st.List {
				chk(b)
			}
		case *ast.BranchStmt:
			if st.Tok != token.CONTINUE {
				insensitive = false
			}
		case *ast.ReturnStmt:
			for _, r := range st.Results {
				if tv, ok := info.Types[r]; !ok || tv.Value == nil {
					if id, ok := r.(*ast.Ident); !ok || (id.Name != "nil" && id.Name != "true" && id.Name != "false") {
						insensitive = false
					}
				}
			}
		case *ast.DeclStmt:
		case *ast.RangeStmt, *ast.ForStmt:
			// nested loops: accept if their bodies are insensitive too
			var body *ast.BlockStmt
			if r, ok := st.(*ast.RangeStmt); ok {
				body = r.Body
			} else {
				body = st.(*ast.ForStmt).Body
			}
			for _, b := range body.List {
				chk(b)
			}
		default:
			insensitive = false
		}
	}
	for _, b := range rs.Body.List {
		chk(b)
	}
	if insensitive {
		return true, "body only updates map entries / counters (order-insensitive)"
	}
	return false, "iteration order can reach the result"
}

// ---- obligations ----

type orderNote struct {
	fn, site, reason string
}

func (u *Universe) goframe(prop string) []FrameResult {
	var out []FrameResult
	want := func(p string) bool { return prop == "" || prop == p }
	if want("C03") {
		out = append(out, u.frameDeterministic()...)
	}
	if want("C06") {
		out = append(out, u.frameHashedInputs()...)
	}
	if want("C19") {
		out = append(out, u.frameOwnedPaths()...)
	}
	if want("C11") {
		out = append(out, u.frameMustRead()...)
	}
	return out
}

// obfuscationPipeline: everything whose output reaches a compiled package.
func (u *Universe) obfuscationPipeline() map[*FuncInfo]bool {
	roots := []*FuncInfo{
		u.fn("", "(*transformer).transformCompile"), u.fn("", "(*transformer).transformAsm"), u.fn("", "(*transformer).transformLink"),
		u.fn("", "alterToolVersion"),
	}
	return u.reachable(roots...)
}

func (u *Universe) frameDeterministic() []FrameResult {
	props := []string{"C03"}
	reach := u.obfuscationPipeline()
	var fis []*FuncInfo
	for fi := range reach {
		fis = append(fis, fi)
	}
	sort.Slice(fis, func(i, j int) bool { return funcLabel(fis[i]) < funcLabel(fis[j]) })
	var out []FrameResult
	nfun := 0
	for _, fi := range fis {
		nfun++
		if strings.HasSuffix(u.fset.Position(fi.Decl.Pos()).Filename, "_gen.go") {
			frameTrustedUsed["generated msgp encoders (*_gen.go) write maps in iteration order into garble's private cache entries; the entries are decoded back into maps, so the byte order does not reach a compiled package"] = true
			continue
		}
		for _, s := range u.sitesIn(fi) {
			pos := u.fset.Position(s.pos)
			where := fmt.Sprintf("%s:%d", pos.Filename, pos.Line)
			name := fmt.Sprintf("frame:deterministic/%s/%s#%d", funcLabel(fi), s.kind, s.ord)
			switch s.kind {
			case "global-rand", "pid":
				out = append(out, FrameResult{Name: name, OK: false, Props: props, Backend: "goframe",
					Detail:  fmt.Sprintf("%s calls %s at %s: the result depends on process-global randomness, not on the seeded generator", funcLabel(fi), s.detail, where),
					Witness: "two calls with identically seeded *rand.Rand arguments produce different output"})
			case "clock":
				ok := u.clockOnlyForLogging(s)
				out = append(out, FrameResult{Name: name, OK: ok, Props: props, Backend: "goframe",
					Detail: fmt.Sprintf("%s reads the clock at %s; used only for log output: %v", funcLabel(fi), where, ok)})
			case "map-order":
				ok, why := u.mapOrderClosed(s)
				if !ok {
					if note := u.orderAssumption(funcLabel(fi), fmt.Sprintf("map-order#%d", s.ord)); note != "" {
						frameTrustedUsed["assume order_insensitive "+name+": "+note] = true
						ok, why = true, "assumed order-insensitive: "+note
					}
				}
				out = append(out, FrameResult{Name: name, OK: ok, Props: props, Backend: "goframe",
					Detail: fmt.Sprintf("%s at %s (%s): %s", s.detail, where, funcLabel(fi), why)})
			}
		}
	}
	out = append(out, FrameResult{Name: "frame:deterministic/pipeline-reachability", OK: nfun > 50, Props: props, Backend: "goframe",
		Detail: fmt.Sprintf("%d functions reachable from transformCompile/transformAsm/transformLink/alterToolVersion were scanned", nfun)})
	return out
}

func (u *Universe) orderAssumption(fn, site string) string {
	for _, a := range u.cs.OrderAssumes {
		if a.fn == fn && a.site == site {
			return a.reason
		}
	}
	return ""
}

// clockOnlyForLogging: the time value only flows into log.Printf / debugSince.
func (u *Universe) clockOnlyForLogging(s effSite) bool {
	info := s.fi.Pkg.TypesInfo
	call := s.node.(*ast.CallExpr)
	// find the variable the result is assigned to
	var obj types.Object
	ast.Inspect(s.fi.Decl.Body, func(n ast.Node) bool {
		if as, ok := n.(*ast.AssignStmt); ok && len(as.Rhs) == 1 && as.Rhs[0] == call && len(as.Lhs) == 1 {
			if id, ok := as.Lhs[0].(*ast.Ident); ok {
				obj = info.ObjectOf(id)
			}
		}
		return true
	})
	if obj == nil {
		// used directly as an argument of a logging call?
		ok := false
		ast.Inspect(s.fi.Decl.Body, func(n ast.Node) bool {
			if c, isCall := n.(*ast.CallExpr); isCall && strings.HasPrefix(types.ExprString(c.Fun), "log.") {
				ast.Inspect(c, func(m ast.Node) bool {
					if m == call {
						ok = true
					}
					return true
				})
			}
			return true
		})
		return ok || s.fi.Key == "debugSince"
	}
	ok := true
	ast.Inspect(s.fi.Decl.Body, func(n ast.Node) bool {
		id, isId := n.(*ast.Ident)
		if !isId || info.Uses[id] != obj {
			return true
		}
		// every use must be inside a call to debugSince(...) or log.*
		inLog := false
		ast.Inspect(s.fi.Decl.Body, func(m ast.Node) bool {
			if c, isCall := m.(*ast.CallExpr); isCall {
				name := types.ExprString(c.Fun)
				if name == "debugSince" || strings.HasPrefix(name, "log.") {
					if c.Pos() <= id.Pos() && id.End() <= c.End() {
						inLog = true
					}
				}
			}
			return true
		})
		if !inLog {
			ok = false
		}
		return true
	})
	return ok
}

func (u *Universe) frameHashedInputs() []FrameResult { return nil }
func (u *Universe) frameOwnedPaths() []FrameResult  { return nil }
func (u *Universe) frameMustRead() []FrameResult    { return nil }

// sortedBeforeUse: the first mention of obj after pos is as the first argument
// of a sort.* / slices.Sort* call.
func sortedBeforeUse(info *types.Info, body *ast.BlockStmt, obj types.Object, pos token.Pos) bool {
	var first *ast.Ident
	ast.Inspect(body, func(n ast.Node) bool {
		if id, ok := n.(*ast.Ident); ok && id.Pos() > pos && info.ObjectOf(id) == obj {
			if first == nil || id.Pos() < first.Pos() {
				first = id
			}
		}
		return true
	})
	if first == nil {
		return false
	}
	ok := false
	ast.Inspect(body, func(n ast.Node) bool {
		if call, isCall := n.(*ast.CallExpr); isCall && len(call.Args) > 0 && ast.Unparen(call.Args[0]) == ast.Expr(first) {
			name := types.ExprString(call.Fun)
			if strings.HasPrefix(name, "sort.") || strings.HasPrefix(name, "slices.Sort") {
				ok = true
			}
		}
		return true
	})
	return ok
}
