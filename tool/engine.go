package main

import (
	"os"
	"fmt"
	"go/ast"
	"go/token"
	"go/types"
	"math/big"
	"sort"
	"strings"

	"golang.org/x/tools/go/packages"
)

// Obl is one verification condition: pc ==> goal.
type Obl struct {
	Name   string // <func>/<kind>#<ordinal>
	Fn     string
	Kind   string // ensures, requires-at-call, invariant-init, invariant-preserve, hook-assert, safety:*, lemma, cover, canary
	Pos    string
	PC     []string
	Goal   string
	Decls  []string // snapshot of declarations
	Spec   []string // spec files to include
	Lits   []string // string literals used
	Expect string   // "unsat" normally; "sat" for cover / canary obligations
	Note   string
	BV     bool
	Quick  bool // use a short solver budget
}

// Eng runs the symbolic execution of one function.
type Eng struct {
	litScan map[*ast.FuncLit]bool
	siteName map[ast.Node]string
	privUntil map[types.Object]token.Pos
	curPos token.Pos
	inDefer int
	leakScan map[*FuncInfo]bool
	u    *Universe
	pkg  *packages.Package
	info *types.Info
	fset *token.FileSet
	fi   *FuncInfo
	con  *Contract

	decls   []string
	declSet map[string]bool
	fresh   int
	obls    []*Obl
	strLits map[string]string
	litList []string
	gcells  map[string]int

	bv bool // bit-vector integer mode

	loopOrd    map[ast.Node]int
	siteOrd    map[ast.Node]int // syntactic ordinal of safety sites (index, slice, div, ...)
	callOrd    map[ast.Node]int
	abstracted map[string]bool
	usedAssume map[string]bool
	inlined    map[string]bool
	paths      int
	depth      int // inlining depth

	curFnName string
	specFiles []string
	retVars   []types.Object // result variables of the function under analysis
	curRes    []types.Type   // result types of the body being executed
	owned     map[types.Object]bool
	curLoopEntry *State
	hookDepth int
	escaped   map[types.Object]bool
	entry     *State
	entryEnv  map[string]Val
}

func (e *Eng) newSym(prefix, sort string) string {
	e.fresh++
	prefix = sanitize(prefix)
	n := fmt.Sprintf("%s!%d", prefix, e.fresh)
	e.decls = append(e.decls, fmt.Sprintf("(declare-const %s %s)", n, sort))
	return n
}

func sanitize(s string) string {
	var b strings.Builder
	for _, r := range s {
		switch {
		case r >= 'a' && r <= 'z', r >= 'A' && r <= 'Z', r >= '0' && r <= '9', r == '_', r == '.':
			b.WriteRune(r)
		default:
			b.WriteByte('_')
		}
	}
	if b.Len() == 0 {
		return "v"
	}
	return b.String()
}

func (e *Eng) declOnce(d string) {
	if e.declSet == nil {
		e.declSet = map[string]bool{}
	}
	if !e.bv && strings.Contains(preludeInt, d+"\n") {
		return // already part of the prelude
	}
	if e.bv && strings.Contains(preludeBV, d+"\n") {
		return
	}
	if !e.declSet[d] {
		e.declSet[d] = true
		e.decls = append(e.decls, d)
	}
}

func (e *Eng) abstract(what string, pos token.Pos) {
	if e.abstracted == nil {
		e.abstracted = map[string]bool{}
	}
	e.abstracted[fmt.Sprintf("%s", what)] = true
}

// oblig records pc ==> goal.
func (e *Eng) oblig(kind, name string, st *State, goal string, pos token.Pos) {
	if st.dead || goal == "true" {
		// still count trivially true goals? no: nothing to discharge.
		return
	}
	o := &Obl{
		Name: e.curFnName + "/" + name, Fn: e.curFnName, Kind: kind,
		PC: append([]string(nil), st.pc...), Goal: goal, Expect: "unsat", BV: e.bv,
	}
	if pos.IsValid() {
		p := e.fset.Position(pos)
		o.Pos = fmt.Sprintf("%s:%d", p.Filename, p.Line)
	}
	e.obls = append(e.obls, o)
}

// ---------- sorts ----------

func (e *Eng) kindOf(t types.Type) Kind {
	if t == nil {
		return KRef
	}
	switch u := t.Underlying().(type) {
	case *types.Basic:
		switch {
		case u.Info()&types.IsBoolean != 0:
			return KBool
		case u.Info()&types.IsString != 0:
			return KStr
		case u.Info()&types.IsInteger != 0:
			return KInt
		case u.Kind() == types.UntypedNil, u.Kind() == types.UnsafePointer:
			return KRef
		}
		return KRef // floats, complex: opaque
	case *types.Slice:
		return KSlice
	case *types.Tuple:
		if u.Len() == 1 {
			return e.kindOf(u.At(0).Type())
		}
		return KTuple
	}
	return KRef
}

// intInfo returns (bits, signed) of an integer type.
func intInfo(t types.Type) (int, bool) {
	if t == nil {
		return 64, true
	}
	b, ok := t.Underlying().(*types.Basic)
	if !ok {
		return 64, true
	}
	switch b.Kind() {
	case types.Int8:
		return 8, true
	case types.Int16:
		return 16, true
	case types.Int32, types.UntypedRune:
		return 32, true
	case types.Int64, types.Int, types.UntypedInt:
		return 64, true
	case types.Uint8:
		return 8, false
	case types.Uint16:
		return 16, false
	case types.Uint32:
		return 32, false
	case types.Uint64, types.Uint, types.Uintptr:
		return 64, false
	}
	return 64, true
}

func pow2(n int) string {
	return new(big.Int).Lsh(big.NewInt(1), uint(n)).String()
}

func intRange(t types.Type) (lo, hi string) {
	bits, signed := intInfo(t)
	if signed {
		h := new(big.Int).Lsh(big.NewInt(1), uint(bits-1))
		return "(- " + h.String() + ")", new(big.Int).Sub(h, big.NewInt(1)).String()
	}
	h := new(big.Int).Lsh(big.NewInt(1), uint(bits))
	return "0", new(big.Int).Sub(h, big.NewInt(1)).String()
}

func (e *Eng) isUntypedConstType(t types.Type) bool {
	b, ok := t.(*types.Basic)
	return ok && b.Info()&types.IsUntyped != 0
}

// sortName gives the SMT sort of a scalar kind.
func (e *Eng) sortOfKind(k Kind, t types.Type) string {
	switch k {
	case KBool:
		return "Bool"
	case KStr:
		return "Str"
	case KInt:
		if e.bv {
			bits, _ := intInfo(t)
			return fmt.Sprintf("(_ BitVec %d)", bits)
		}
		return "Int"
	}
	return "Int"
}

func (e *Eng) idxSort() string {
	if e.bv {
		return "(_ BitVec 64)"
	}
	return "Int"
}

// elemTag is the heap family tag for a type's scalar representation.
func (e *Eng) elemTag(t types.Type) string {
	switch e.kindOf(t) {
	case KBool:
		return "Bool"
	case KStr:
		return "Str"
	case KInt:
		if e.bv {
			bits, _ := intInfo(t)
			return fmt.Sprintf("BV%d", bits)
		}
		return "Int"
	case KSlice:
		return "S"
	}
	return "Ref"
}

func (e *Eng) tagSort(tag string) string {
	switch tag {
	case "Bool":
		return "Bool"
	case "Str":
		return "Str"
	case "Int", "Ref":
		return "Int"
	}
	if strings.HasPrefix(tag, "BV") {
		return "(_ BitVec " + tag[2:] + ")"
	}
	return "Int"
}

// heapSort computes the SMT sort of a heap key.
func (e *Eng) heapSort(key string) string {
	// key forms: E:<tag>[#comp], F:<id>:<tag>[#comp], G:<id>:<tag>[#comp], P:<tag>, M:<ktag>:<vtag>[#comp], MP:<ktag>, ML
	parts := strings.SplitN(key, ":", 2)
	fam := parts[0]
	comp := ""
	rest := ""
	if len(parts) > 1 {
		rest = parts[1]
	}
	if i := strings.LastIndex(rest, "#"); i >= 0 {
		comp = rest[i+1:]
		rest = rest[:i]
	}
	scalar := func(tag string) string {
		if comp != "" { // slice component
			if comp == "ref" {
				return "Int"
			}
			return e.idxSort()
		}
		return e.tagSort(tag)
	}
	lastTag := func(s string) string {
		if i := strings.LastIndex(s, ":"); i >= 0 {
			return s[i+1:]
		}
		return s
	}
	switch fam {
	case "E":
		return "(Array Int (Array " + e.idxSort() + " " + scalar(rest) + "))"
	case "F":
		return "(Array Int " + scalar(lastTag(rest)) + ")"
	case "G":
		return scalar(lastTag(rest))
	case "P":
		return "(Array Int " + scalar(rest) + ")"
	case "M":
		kv := strings.SplitN(rest, ":", 2)
		return "(Array Int (Array " + e.tagSort(kv[0]) + " " + scalar(kv[1]) + "))"
	case "MP":
		return "(Array Int (Array " + e.tagSort(rest) + " Bool))"
	case "ML":
		return "(Array Int Int)"
	}
	return "Int"
}

func (e *Eng) heapGet(st *State, key string) string {
	if t, ok := st.heap[key]; ok {
		return t
	}
	init := heapInit(key, st.epoch)
	if st.suffix != "" {
		init = primed(init)
	}
	e.declOnce(fmt.Sprintf("(declare-const %s %s)", init, e.heapSort(key)))
	if !noFrontier {
		if ax := e.refAxiom(key, init, e.epochFrontier(st)); ax != "" {
			e.declOnce("(assert " + ax + ")")
		}
	}
	st.heap[key] = init
	return init
}

// ---------- allocation frontier ----------
// Allocations get strictly decreasing negative identities: a new allocation is smaller than
// st.frontier, which is a lower bound of every reference that exists at that moment. Every
// reference held in memory when a heap symbol is introduced (function entry, after a call
// whose effects are unknown, at the head of a summarised loop) is >= the frontier of that
// moment, so nothing read from memory can alias an object allocated later. This is how Go
// behaves; it needs no separation hypothesis. The axiom speaks only about objects that exist at
// that moment (identity >= frontier): a heap symbol says nothing about the fields of an object
// allocated later, so a callee's postcondition about the fields of the object it returns stays
// consistent. References returned by calls and locals forgotten at a loop head exist at that
// moment too and are >= the frontier of that moment (existingRefs).

var noFrontier = os.Getenv("GOVC_NO_FRONTIER") != ""

func (st *State) front() string {
	if st.frontier == "" {
		return "0"
	}
	return st.frontier
}

// epochFrontier names the frontier that held when the heap symbols of st's epoch came into being.
func (e *Eng) epochFrontier(st *State) string {
	if st.epoch == 0 {
		return "0"
	}
	fr := fmt.Sprintf("|FR%d|", st.epoch)
	if st.suffix != "" {
		fr = primed(fr)
	}
	e.declOnce(fmt.Sprintf("(declare-const %s Int)", fr))
	return fr
}

// refAxiom: every reference stored in heap symbol h (of heap key key) is >= fr; "" if the
// key does not hold references.
func (e *Eng) refAxiom(key, h, fr string) string {
	parts := strings.SplitN(key, ":", 2)
	fam, rest, comp := parts[0], "", ""
	if len(parts) > 1 {
		rest = parts[1]
	}
	if i := strings.LastIndex(rest, "#"); i >= 0 {
		comp = rest[i+1:]
		rest = rest[:i]
	}
	isRefTag := func(tag string) bool {
		if comp != "" {
			return comp == "ref"
		}
		if i := strings.LastIndex(tag, ":"); i >= 0 {
			tag = tag[i+1:]
		}
		return tag == "Ref" || strings.HasPrefix(tag, "Ref_")
	}
	switch fam {
	case "E":
		if !isRefTag(rest) {
			return ""
		}
		return fmt.Sprintf("(forall ((x Int) (i %s)) (! (=> (>= x %s) (>= (select (select %s x) i) %s)) :pattern ((select (select %s x) i))))", e.idxSort(), fr, h, fr, h)
	case "F", "P":
		if !isRefTag(rest) {
			return ""
		}
		return fmt.Sprintf("(forall ((x Int)) (! (=> (>= x %s) (>= (select %s x) %s)) :pattern ((select %s x))))", fr, h, fr, h)
	case "G":
		if !isRefTag(rest) {
			return ""
		}
		return fmt.Sprintf("(>= %s %s)", h, fr)
	case "M":
		kv := strings.SplitN(rest, ":", 2)
		if len(kv) < 2 || !isRefTag(kv[1]) {
			return ""
		}
		return fmt.Sprintf("(forall ((x Int) (k %s)) (! (=> (>= x %s) (>= (select (select %s x) k) %s)) :pattern ((select (select %s x) k))))", e.tagSort(kv[0]), fr, h, fr, h)
	}
	return ""
}

func (e *Eng) heapSet(st *State, key, term string) {
	e.heapGet(st, key) // ensure declared
	st.heap[key] = term
}

func (e *Eng) heapHavoc(st *State, key string) {
	e.heapGet(st, key)
	h := e.newSym("H_"+sanitize(key), e.heapSort(key))
	st.heap[key] = h
	if !noFrontier {
		if e.refAxiom(key, h, "0") != "" {
			// whatever forgot this location may have allocated: the frontier can only have gone down.
			// All locations forgotten by one effect (one call, one loop summary) share one frontier.
			fr := st.groupFr
			if fr == "" {
				fr = e.newSym("fr", "Int")
				st.assume("(<= " + fr + " " + st.front() + ")")
				if st.inGroup {
					st.groupFr = fr
				}
			}
			st.frontier = fr
			st.assume(e.refAxiom(key, h, fr))
		}
	}
}

// havocAllHeaps forgets every heap location except the keys for which keep returns true.
func (e *Eng) havocAllHeaps(st *State, keep func(string) bool) {
	for _, k := range sortedKeys(st.heap) {
		if keep != nil && keep(k) {
			continue
		}
		if e.stableKey(k) {
			continue // a `stable` package-level variable: written only by flag parsing (ground:stable-*)
		}
		e.heapHavoc(st, k)
	}
}

// ---------- typed locations ----------

// comps returns the component suffixes for a value of type t: [""] for scalars, 4 for slices.
func (e *Eng) comps(t types.Type) []string {
	if e.kindOf(t) == KSlice {
		return []string{"#ref", "#off", "#len", "#cap"}
	}
	return []string{""}
}

func nestSelect(arr string, idxs []string) string {
	for _, i := range idxs {
		arr = "(select " + arr + " " + i + ")"
	}
	return arr
}

func nestStore(arr string, idxs []string, v string) string {
	if len(idxs) == 0 {
		return v
	}
	if len(idxs) == 1 {
		return "(store " + arr + " " + idxs[0] + " " + v + ")"
	}
	inner := nestStore("(select "+arr+" "+idxs[0]+")", idxs[1:], v)
	return "(store " + arr + " " + idxs[0] + " " + inner + ")"
}

func (e *Eng) loadLoc(st *State, base string, idxs []string, t types.Type) Val {
	k := e.kindOf(t)
	if k == KSlice {
		g := func(c string) string { return nestSelect(e.heapGet(st, base+c), idxs) }
		v := Val{K: KSlice, Ref: g("#ref"), Off: g("#off"), Len: g("#len"), Cap: g("#cap"), GoT: t}
		e.sliceFacts(st, v)
		e.refOrigin(st, v.Ref)
		e.privFacts(st, v.Ref)
		return v
	}
	term := nestSelect(e.heapGet(st, base), idxs)
	v := Val{K: k, T: term, GoT: t}
	e.typeFacts(st, v)
	if k == KRef {
		e.refOrigin(st, v.T)
	}
	return v
}

func (e *Eng) storeLoc(st *State, base string, idxs []string, v Val) {
	if v.K == KSlice {
		set := func(c, t string) { e.heapSet(st, base+c, nestStore(e.heapGet(st, base+c), idxs, t)) }
		set("#ref", v.Ref)
		set("#off", v.Off)
		set("#len", v.Len)
		set("#cap", v.Cap)
		return
	}
	e.heapSet(st, base, nestStore(e.heapGet(st, base), idxs, v.T))
}

// elemBase names the heap that holds the arrays with elements of type t.
// Arrays of references are kept apart by element type: Go's type system (unsafe
// aside) rules out that a []*T and a []U share an array.
func (e *Eng) elemBase(t types.Type) string {
	tag := e.elemTag(t)
	if tag == "Ref" && t != nil {
		u := types.Unalias(t)
		if _, isTP := u.(*types.TypeParam); !isTP {
			tag = "Ref~" + sanitize(types.TypeString(u, func(p *types.Package) string { return p.Name() }))
		}
	}
	return "E:" + tag
}

func fieldID(f *types.Var) string {
	f = f.Origin()
	p := ""
	if f.Pkg() != nil {
		p = f.Pkg().Path()
	}
	return fmt.Sprintf("%s.%s@%d", p, f.Name(), int(f.Pos()))
}

var fieldNames = map[string]string{}

func (e *Eng) fieldBase(f *types.Var, owner string) string {
	// Stable, readable key: owner type name + field name.
	return "F:" + owner + "." + f.Name() + ":" + e.elemTag(f.Type())
}

func (e *Eng) globalBase(v *types.Var) string {
	p := ""
	if v.Pkg() != nil {
		p = v.Pkg().Name()
	}
	return "G:" + p + "." + v.Name() + ":" + e.elemTag(v.Type())
}

func ownerName(t types.Type) string {
	t = types.Unalias(t)
	if p, ok := t.(*types.Pointer); ok {
		t = types.Unalias(p.Elem())
	}
	if n, ok := t.(*types.Named); ok {
		o := n.Obj()
		if o.Pkg() != nil {
			return o.Pkg().Name() + "." + o.Name()
		}
		return o.Name()
	}
	return "anon"
}

// ---------- facts ----------

func (e *Eng) assumeOnce(st *State, fact string) {
	if strings.Contains(fact, "q.") {
		return // mentions a quantified variable: not a path fact
	}
	for i := len(st.pc) - 1; i >= 0 && i >= len(st.pc)-64; i-- {
		if st.pc[i] == fact {
			return
		}
	}
	st.pc = append(st.pc, fact)
}

func (e *Eng) typeFacts(st *State, v Val) {
	if v.K == KInt && !e.bv {
		lo, hi := intRange(v.GoT)
		if isLiteralTerm(v.T) {
			return
		}
		e.assumeOnce(st, fmt.Sprintf("(and (<= %s %s) (<= %s %s))", lo, v.T, v.T, hi))
	}
}

func isLiteralTerm(t string) bool {
	if t == "" {
		return false
	}
	for _, r := range t {
		if r < '0' || r > '9' {
			return false
		}
	}
	return true
}

func (e *Eng) sliceFacts(st *State, v Val) {
	if e.bv {
		e.assumeOnce(st, fmt.Sprintf("(and (bvule %s %s) (bvule %s #x0000000000ffffff) (bvule %s #x0000000000ffffff))", v.Len, v.Cap, v.Cap, v.Off))
		return
	}
	e.assumeOnce(st, fmt.Sprintf("(and (<= 0 %s) (<= %s %s) (<= 0 %s) (<= %s 4611686018427387904) (<= %s 4611686018427387904))", v.Len, v.Len, v.Cap, v.Off, v.Cap, v.Off))
	// a nil slice header is all zeroes
	if !isLiteralTerm(v.Ref) && !strings.Contains(v.Ref, "q.") {
		e.assumeOnce(st, fmt.Sprintf("(=> (= %s 0) (and (= %s 0) (= %s 0) (= %s 0)))", v.Ref, v.Len, v.Cap, v.Off))
	}
}

// ---------- symbolic values for types ----------

func (e *Eng) symFor(name string, t types.Type, st *State) Val {
	switch k := e.kindOf(t); k {
	case KSlice:
		v := Val{K: KSlice, GoT: t,
			Ref: e.newSym(name+".ref", "Int"), Off: e.newSym(name+".off", e.idxSort()),
			Len: e.newSym(name+".len", e.idxSort()), Cap: e.newSym(name+".cap", e.idxSort())}
		e.sliceFacts(st, v)
		return v
	case KTuple:
		tup := t.Underlying().(*types.Tuple)
		v := Val{K: KTuple, GoT: t}
		for i := 0; i < tup.Len(); i++ {
			v.Elts = append(v.Elts, e.symFor(fmt.Sprintf("%s.%d", name, i), tup.At(i).Type(), st))
		}
		return v
	case KUnit:
		return Val{K: KUnit}
	default:
		v := Val{K: k, T: e.newSym(name, e.sortOfKind(k, t)), GoT: t}
		e.typeFacts(st, v)
		if k == KRef && t != nil {
			switch t.Underlying().(type) {
			case *types.Struct, *types.Array:
				// value cells are never nil
				st.assume("(not (= " + v.T + " 0))")
			}
		}
		return v
	}
}

func (e *Eng) alloc(st *State, name string) string {
	r := e.newSym("new."+name, "Int")
	st.assume("(< " + r + " 0)")
	if !noFrontier {
		st.assume("(< " + r + " " + st.front() + ")")
		st.frontier = r
	}
	if len(st.allocs) > 0 {
		st.assume("(distinct " + r + " " + strings.Join(st.allocs, " ") + ")")
	}
	for _, k := range st.known {
		// references handed back by calls exist already (they may alias each other or an allocation)
		st.assume("(not (= " + r + " " + k + "))")
	}
	// a fresh allocation differs from every reference held in a variable
	var held []string
	seen := map[string]bool{}
	for _, o := range sortedObjs(st.vars) {
		v := st.vars[o]
		t := ""
		switch v.K {
		case KSlice:
			t = v.Ref
		case KRef:
			t = v.T
		}
		if t == "" || isLiteralTerm(t) || seen[t] || len(t) > 200 || strings.HasPrefix(t, "new.") {
			continue
		}
		seen[t] = true
		held = append(held, "(not (= "+r+" "+t+"))")
	}
	if len(held) > 0 && len(held) <= 24 {
		st.assume("(and " + strings.Join(held, " ") + ")")
	}
	st.allocs = append(st.allocs, r)
	return r
}

func (e *Eng) zeroVal(t types.Type, st *State) Val {
	switch k := e.kindOf(t); k {
	case KInt:
		return Val{K: KInt, T: e.intLit(big.NewInt(0), t), GoT: t}
	case KBool:
		return Val{K: KBool, T: "false", GoT: t}
	case KStr:
		return Val{K: KStr, T: e.strLit(""), GoT: t}
	case KSlice:
		z := e.idxLit(0)
		return Val{K: KSlice, Ref: "0", Off: z, Len: z, Cap: z, GoT: t}
	case KTuple:
		tup := t.Underlying().(*types.Tuple)
		v := Val{K: KTuple, GoT: t}
		for i := 0; i < tup.Len(); i++ {
			v.Elts = append(v.Elts, e.zeroVal(tup.At(i).Type(), st))
		}
		return v
	default:
		if t != nil {
			switch u := t.Underlying().(type) {
			case *types.Struct:
				cell := e.alloc(st, "struct")
				for i := 0; i < u.NumFields(); i++ {
					f := u.Field(i)
					e.storeLoc(st, e.fieldBase(f, ownerName(t)), []string{cell}, e.zeroVal(f.Type(), st))
				}
				return Val{K: KRef, T: cell, GoT: t}
			case *types.Array:
				cell := e.alloc(st, "array")
				base := e.elemBase(u.Elem())
				if e.kindOf(u.Elem()) != KSlice && e.kindOf(u.Elem()) != KRef || isScalarRef(u.Elem()) {
					z := e.zeroVal(u.Elem(), st)
					if z.K != KSlice {
						row := fmt.Sprintf("((as const (Array %s %s)) %s)", e.idxSort(), e.tagSort(e.elemTag(u.Elem())), z.T)
						h := e.heapGet(st, base)
						e.heapSet(st, base, "(store "+h+" "+cell+" "+row+")")
					}
				}
				return Val{K: KRef, T: cell, GoT: t}
			}
		}
		return Val{K: KRef, T: "0", GoT: t}
	}
}

func isScalarRef(t types.Type) bool {
	switch t.Underlying().(type) {
	case *types.Struct, *types.Array:
		return false
	}
	return true
}

// copyVal implements Go's value semantics for struct and array values.
func (e *Eng) copyVal(st *State, v Val) Val {
	if v.K != KRef || v.GoT == nil {
		return v
	}
	switch u := v.GoT.Underlying().(type) {
	case *types.Struct:
		cell := e.alloc(st, "copy")
		for i := 0; i < u.NumFields(); i++ {
			f := u.Field(i)
			base := e.fieldBase(f, ownerName(v.GoT))
			fv := e.loadLoc(st, base, []string{v.T}, f.Type())
			fv = e.copyVal(st, fv)
			e.storeLoc(st, base, []string{cell}, fv)
		}
		return Val{K: KRef, T: cell, GoT: v.GoT}
	case *types.Array:
		cell := e.alloc(st, "acopy")
		for _, c := range e.comps(u.Elem()) {
			key := e.elemBase(u.Elem()) + c
			h := e.heapGet(st, key)
			e.heapSet(st, key, "(store "+h+" "+cell+" (select "+h+" "+v.T+"))")
		}
		return Val{K: KRef, T: cell, GoT: v.GoT}
	}
	return v
}

// ---------- integer helpers (mode aware) ----------

func (e *Eng) intLit(n *big.Int, t types.Type) string {
	if e.bv {
		bits, _ := intInfo(t)
		m := new(big.Int).Lsh(big.NewInt(1), uint(bits))
		x := new(big.Int).Mod(n, m)
		return fmt.Sprintf("(_ bv%s %d)", x.String(), bits)
	}
	if n.Sign() < 0 {
		return "(- " + new(big.Int).Neg(n).String() + ")"
	}
	return n.String()
}

func (e *Eng) idxLit(n int64) string {
	if e.bv {
		return fmt.Sprintf("(_ bv%d 64)", n)
	}
	return fmt.Sprint(n)
}

// wrap reduces a mathematical term to the range of type t (Go wrap-around), int mode only.
func (e *Eng) wrap(term string, t types.Type) string {
	if e.bv {
		return term
	}
	bits, signed := intInfo(t)
	if !signed {
		return "(mod " + term + " " + pow2(bits) + ")"
	}
	h := pow2(bits - 1)
	return "(- (mod (+ " + term + " " + h + ") " + pow2(bits) + ") " + h + ")"
}

func (e *Eng) inRange(term string, t types.Type) string {
	lo, hi := intRange(t)
	return fmt.Sprintf("(and (<= %s %s) (<= %s %s))", lo, term, term, hi)
}

// ---------- strings ----------

func (e *Eng) strLit(s string) string {
	if s == "" {
		return "str.empty"
	}
	if e.strLits == nil {
		e.strLits = map[string]string{}
	}
	if n, ok := e.strLits[s]; ok {
		return n
	}
	n := litName(s)
	e.strLits[s] = n
	e.litList = append(e.litList, s)
	return n
}

// litName is the canonical SMT symbol of a string literal; spec files use the
// same symbols, e.g. |"-race"|.
func litName(s string) string {
	ok := true
	for i := 0; i < len(s); i++ {
		if s[i] < 0x20 || s[i] > 0x7e || s[i] == '|' || s[i] == '\\' || s[i] == '"' {
			ok = false
		}
	}
	if ok {
		return "|\"" + s + "\"|"
	}
	return fmt.Sprintf("|'%x'|", s)
}

// litFromName inverts litName.
func litFromName(n string) (string, bool) {
	if strings.HasPrefix(n, "|'") && strings.HasSuffix(n, "'|") {
		var out []byte
		if _, err := fmt.Sscanf(n[2:len(n)-2], "%x", &out); err == nil {
			return string(out), true
		}
		return "", false
	}
	if !strings.HasPrefix(n, "|\"") || !strings.HasSuffix(n, "\"|") {
		return "", false
	}
	body := n[2 : len(n)-2]
	return body, true
}

// litDecls declares string literals with their length and characters.
func litDecls(lits []string, litBV bool) string {
	var b strings.Builder
	var names []string
	seen := map[string]bool{}
	for _, s := range lits {
		if s == "" || seen[s] {
			continue
		}
		seen[s] = true
		n := litName(s)
		names = append(names, n)
		cm := strings.ReplaceAll(fmt.Sprintf("%q", s), "\n", " ")
		if len(cm) > 80 {
			cm = cm[:80] + "..."
		}
		if litBV {
			fmt.Fprintf(&b, "(declare-const %s Str) ; %s\n(assert (= (slen %s) (_ bv%d 64)))\n", n, cm, n, len(s))
		} else {
			fmt.Fprintf(&b, "(declare-const %s Str) ; %s\n(assert (= (slen %s) %d))\n", n, cm, n, len(s))
		}
		if len(s) <= 48 {
			var cs []string
			for i := 0; i < len(s); i++ {
				if litBV {
					cs = append(cs, fmt.Sprintf("(= (sat %s (_ bv%d 64)) (_ bv%d 8))", n, i, s[i]))
				} else {
					cs = append(cs, fmt.Sprintf("(= (sat %s %d) %d)", n, i, s[i]))
				}
			}
			if len(cs) == 1 {
				b.WriteString("(assert " + cs[0] + ")\n")
			} else {
				b.WriteString("(assert (and " + strings.Join(cs, " ") + "))\n")
			}
		}
	}
	if len(names) > 0 {
		b.WriteString("(assert (distinct str.empty " + strings.Join(names, " ") + "))\n")
	}
	return b.String()
}

// rowOf returns the backing array of a slice in the current heap.
func (e *Eng) rowOf(st *State, v Val) string {
	if v.Row != "" {
		return v.Row
	}
	var et types.Type
	if v.GoT != nil {
		switch u := v.GoT.Underlying().(type) {
		case *types.Slice:
			et = u.Elem()
		case *types.Array:
			et = u.Elem()
		case *types.Pointer:
			if a, ok := u.Elem().Underlying().(*types.Array); ok {
				et = a.Elem()
			}
		}
	}
	if et == nil {
		et = types.Typ[types.Uint8]
	}
	return "(select " + e.heapGet(st, e.elemBase(et)) + " " + v.Ref + ")"
}

func sortStrings(m map[string]bool) []string {
	var out []string
	for k := range m {
		out = append(out, k)
	}
	sort.Strings(out)
	return out
}

// existingRefs states that the reference components of v denote objects that exist now.
func (e *Eng) existingRefs(st *State, v Val) {
	if noFrontier {
		return
	}
	fresh := func(t string) bool { return strings.HasPrefix(t, "ret") || strings.HasPrefix(t, "hv.") || strings.HasPrefix(t, "loop.") }
	known := func(t string) {
		// a reference that later reads from memory may yield (refOrigin) and that later
		// allocations differ from
		for _, a := range st.known {
			if a == t {
				return
			}
		}
		st.known = append(st.known, t)
	}
	switch v.K {
	case KRef:
		if fresh(v.T) {
			st.assume("(>= " + v.T + " " + st.front() + ")")
			known(v.T)
		}
	case KSlice:
		if fresh(v.Ref) {
			st.assume("(>= " + v.Ref + " " + st.front() + ")")
			known(v.Ref)
		}
	case KTuple:
		for _, x := range v.Elts {
			e.existingRefs(st, x)
		}
	}
}

// havocGroup runs f, during which every location forgotten shares one allocation frontier
// (f must not allocate). Nested groups join the outer one.
func (e *Eng) havocGroup(st *State, f func()) {
	if st.inGroup {
		f()
		return
	}
	st.inGroup, st.groupFr = true, ""
	defer func() { st.inGroup, st.groupFr = false, "" }()
	f()
}

// stableKey: the heap key of a package-level variable of package main declared `stable`.
func (e *Eng) stableKey(k string) bool {
	if e.u == nil || e.u.cs == nil || len(e.u.cs.Stable) == 0 || !strings.HasPrefix(k, "G:main.") {
		return false
	}
	name := strings.TrimPrefix(k, "G:main.")
	if i := strings.Index(name, ":"); i >= 0 {
		name = name[:i]
	}
	_, ok := e.u.cs.Stable[name]
	return ok
}
