package main

import "regexp"

func matchRegexp(pattern, s string) bool {
	re, err := regexp.Compile(pattern)
	if err != nil {
		return false
	}
	return re.MatchString(s)
}

// effectObligations: the goframe pass (built below in goframe.go).
func (u *Universe) effectObligations(prop string) []FrameResult { return u.goframe(prop) }

// CaseCalls: a frame condition on one case of a type switch: only the listed
// functions / methods may be called there (what the case may depend on).
type CaseCalls struct {
	Type    string
	Allowed []string
	Line    int
}
