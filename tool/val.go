package main

import (
	"fmt"
	"go/ast"
	"go/types"
	"sort"
	"strings"
)

// Kind is the shape of a symbolic value.
type Kind int

const (
	KUnit  Kind = iota
	KInt        // mathematical Int (int mode) or bit-vector (bv mode); width/sign from GoT
	KBool       // Bool
	KStr        // Str (uninterpreted sort)
	KRef        // Int: pointers, maps, funcs, interfaces, chans, struct cells, array cells; 0 is nil
	KSlice      // (Ref, Off, Len, Cap)
	KTuple      // multiple results
	KGMap       // ghost map: SMT array term in T; key/value sorts in GKey/GVal
)

// Val is a symbolic value: SMT terms plus the Go type when known.
type Val struct {
	K                  Kind
	T                  string // scalar term
	Ref, Off, Len, Cap string // slice components
	Elts               []Val  // tuple
	GoT                types.Type
	Lit                *ast.FuncLit // set when the value is a known function literal
	Bound              *boundMethod // set when the value is a bound method value / known func
	GKey, GVal         string       // ghost map sorts
	Row                string       // spec-only slices: the backing array term itself (no heap cell)
}

type boundMethod struct {
	fn   *types.Func
	recv *Val
}

func (v Val) String() string {
	switch v.K {
	case KSlice:
		return fmt.Sprintf("slice(%s,%s,%s,%s)", v.Ref, v.Off, v.Len, v.Cap)
	case KTuple:
		var s []string
		for _, e := range v.Elts {
			s = append(s, e.String())
		}
		return "(" + strings.Join(s, ", ") + ")"
	}
	return v.T
}

type deferred struct {
	lit  *ast.FuncLit  // deferred closure, or
	call *ast.CallExpr // deferred call expression (arguments pre-evaluated in args)
	fun  Val
	args []Val
}

// State is one symbolic path.
type State struct {
	vars   map[types.Object]Val
	ghost  map[string]Val
	heap   map[string]string // heap key -> current SMT term
	pc     []string
	allocs []string
	defers []deferred
	dead   bool // path condition known false (after panic / assume false)
	epoch  int  // bumped by every havoc-all, so untouched heap keys are fresh afterwards
	suffix string // "'" in the second run of a self-composition: names of untouched heap keys
	tainted bool  // some memory that can hold references has been forgotten (havoc) on this path
	known  []string // references returned by calls on this path (exist, may alias)
	inGroup bool   // inside one effect: locations forgotten share groupFr
	groupFr string
	frontier string // lower bound of every reference existing now ("" = 0); see engine.go
}

func newState() *State {
	return &State{vars: map[types.Object]Val{}, ghost: map[string]Val{}, heap: map[string]string{}}
}

func (s *State) clone() *State {
	n := &State{
		vars:   make(map[types.Object]Val, len(s.vars)),
		ghost:  make(map[string]Val, len(s.ghost)),
		heap:   make(map[string]string, len(s.heap)),
		pc:     append([]string(nil), s.pc...),
		allocs: append([]string(nil), s.allocs...),
		defers: append([]deferred(nil), s.defers...),
		dead:   s.dead,
		epoch:  s.epoch,
		suffix: s.suffix,
		tainted: s.tainted,
		frontier: s.frontier,
		known: append([]string(nil), s.known...),
	}
	for k, v := range s.vars {
		n.vars[k] = v
	}
	for k, v := range s.ghost {
		n.ghost[k] = v
	}
	for k, v := range s.heap {
		n.heap[k] = v
	}
	return n
}

func (s *State) assume(t string) {
	if t == "true" {
		return
	}
	s.pc = append(s.pc, t)
}

func ite(c, a, b string) string {
	if a == b {
		return a
	}
	if c == "true" {
		return a
	}
	if c == "false" {
		return b
	}
	return "(ite " + c + " " + a + " " + b + ")"
}

func iteVal(c string, a, b Val) Val {
	if a.K != b.K {
		// incompatible: keep a (callers avoid this); mark by unit
		return a
	}
	r := a
	switch a.K {
	case KSlice:
		r.Ref, r.Off, r.Len, r.Cap = ite(c, a.Ref, b.Ref), ite(c, a.Off, b.Off), ite(c, a.Len, b.Len), ite(c, a.Cap, b.Cap)
	case KTuple:
		r.Elts = nil
		for i := range a.Elts {
			if i < len(b.Elts) {
				r.Elts = append(r.Elts, iteVal(c, a.Elts[i], b.Elts[i]))
			}
		}
	case KUnit:
	default:
		r.T = ite(c, a.T, b.T)
		if a.T != b.T {
			r.Lit, r.Bound = nil, nil
		}
	}
	return r
}

// mergeStates joins two paths that forked from a common ancestor with nBase
// path-condition entries: result = cond ? a : b.
func mergeStates(cond string, a, b *State, nBase int) *State {
	if a.dead {
		r := b.clone()
		return r
	}
	if b.dead {
		r := a.clone()
		return r
	}
	r := a.clone()
	r.pc = append([]string(nil), a.pc[:nBase]...)
	// a's pc[nBase] is cond itself, b's pc[nBase] is (not cond); keep the rest guarded.
	for _, p := range a.pc[nBase:] {
		if p == cond {
			continue
		}
		r.pc = append(r.pc, "(=> "+cond+" "+p+")")
	}
	ncond := "(not " + cond + ")"
	for _, p := range b.pc[nBase:] {
		if p == ncond {
			continue
		}
		r.pc = append(r.pc, "(=> "+ncond+" "+p+")")
	}
	for k, va := range a.vars {
		if vb, ok := b.vars[k]; ok {
			r.vars[k] = iteVal(cond, va, vb)
		}
	}
	for k, vb := range b.vars {
		if _, ok := a.vars[k]; !ok {
			r.vars[k] = vb
		}
	}
	for k, va := range a.ghost {
		if vb, ok := b.ghost[k]; ok {
			r.ghost[k] = iteVal(cond, va, vb)
		}
	}
	keys := map[string]bool{}
	for k := range a.heap {
		keys[k] = true
	}
	for k := range b.heap {
		keys[k] = true
	}
	for k := range keys {
		ta, oka := a.heap[k]
		tb, okb := b.heap[k]
		if !oka {
			ta = heapInit(k, a.epoch)
		}
		if !okb {
			tb = heapInit(k, b.epoch)
		}
		r.heap[k] = ite(cond, ta, tb)
	}
	if b.epoch > r.epoch {
		r.epoch = b.epoch
	}
	r.tainted = a.tainted || b.tainted
	if a.front() == b.front() {
		r.frontier = a.frontier
	} else {
		r.frontier = ite(cond, a.front(), b.front())
	}
	// allocs: union
	seen := map[string]bool{}
	r.allocs = nil
	for _, x := range append(append([]string(nil), a.allocs...), b.allocs...) {
		if !seen[x] {
			seen[x] = true
			r.allocs = append(r.allocs, x)
		}
	}
	seenK := map[string]bool{}
	r.known = nil
	for _, x := range append(append([]string(nil), a.known...), b.known...) {
		if !seenK[x] {
			seenK[x] = true
			r.known = append(r.known, x)
		}
	}
	// defers: must agree (we only merge when they do)
	return r
}

func sameDefers(a, b *State) bool {
	if len(a.defers) != len(b.defers) {
		return false
	}
	for i := range a.defers {
		if a.defers[i].lit != b.defers[i].lit || a.defers[i].call != b.defers[i].call {
			return false
		}
	}
	return true
}

func heapInit(key string, epoch int) string { return fmt.Sprintf("|H%d:%s|", epoch, key) }

func sortedKeys[M ~map[string]V, V any](m M) []string {
	var ks []string
	for k := range m {
		ks = append(ks, k)
	}
	sort.Strings(ks)
	return ks
}
