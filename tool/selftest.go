package main

func cmdSelftest(args []string) int { return 0 }
