package main

import (
	"encoding/json"
	"flag"
	"fmt"
	"os"
	"path/filepath"
	"strings"
)

// Mutant is one deliberately property-breaking (must-fail) or harmless
// (must-pass) change, applied in memory through the go/packages overlay.
type Mutant struct {
	Name     string   `json:"name"`
	File     string   `json:"file"`
	Old      string   `json:"old"`
	New      string   `json:"new"`
	Props    []string `json:"props"`     // properties whose check must report a violation (must-fail) ...
	MustPass bool     `json:"must_pass"` // ... or must stay quiet (must-pass)
	Expect   string   `json:"expect"`    // substring of an obligation expected to fail
	Note     string   `json:"note"`
}

func loadMutants(verif string, pat ...string) ([]Mutant, error) {
	var all []Mutant
	glob := "*.json"
	if len(pat) > 0 && pat[0] != "" {
		glob = pat[0] + ".json"
	}
	files, _ := filepath.Glob(filepath.Join(verif, "selftest", glob))
	for _, f := range files {
		data, err := os.ReadFile(f)
		if err != nil {
			return nil, err
		}
		var ms []Mutant
		if err := json.Unmarshal(data, &ms); err != nil {
			return nil, fmt.Errorf("%s: %v", f, err)
		}
		all = append(all, ms...)
	}
	return all, nil
}

// cmdSelftest runs the corpus: every must-fail mutant has to make the check of
// each listed property fail on a claimed obligation, every must-pass mutant
// has to leave it quiet.
func cmdSelftest(args []string) int {
	fs := flag.NewFlagSet("selftest", flag.ExitOnError)
	prop := fs.String("prop", "", "only mutants for this property")
	only := fs.String("name", "", "only mutants whose name contains this")
	repo := fs.String("repo", "/repo", "")
	verif := fs.String("verif", "/verif", "")
	file := fs.String("file", "", "only mutants from this corpus file (base name)")
	fs.Parse(args)
	os.Setenv("GOVC_NO_RETRY", "1") // mutants are expected to fail: no second chance needed
	os.Setenv("GOVC_NO_REPLAY", "1")
	ms, err := loadMutants(*verif, *file)
	if err != nil {
		fmt.Fprintln(os.Stderr, err)
		return 2
	}
	bad := 0
	run := 0
	for _, m := range ms {
		if *only != "" && !strings.Contains(m.Name, *only) {
			continue
		}
		for _, p := range m.Props {
			if *prop != "" && p != *prop {
				continue
			}
			run++
			src, err := os.ReadFile(filepath.Join(*repo, m.File))
			if err != nil {
				fmt.Printf("SELFTEST-ERROR %s: %v\n", m.Name, err)
				bad++
				continue
			}
			if strings.Count(string(src), m.Old) != 1 {
				fmt.Printf("SELFTEST-STALE %s [%s]: anchor occurs %d times in %s\n", m.Name, p, strings.Count(string(src), m.Old), m.File)
				bad++
				continue
			}
			ov := map[string][]byte{filepath.Join(*repo, m.File): []byte(strings.Replace(string(src), m.Old, m.New, 1))}
			o := &checkOpts{repo: *repo, verif: *verif, prop: p, tier: "quick", overlay: ov, quiet: true, noEvidence: true, mirror: true}
			out, err := runCheck(o)
			if err != nil {
				fmt.Printf("SELFTEST-ERROR %s [%s]: %v\n", m.Name, p, err)
				bad++
				continue
			}
			failed := failedNames(o, out)
			switch {
			case m.MustPass && len(failed) > 0:
				fmt.Printf("SELFTEST-FALSE-ALARM %s [%s]: %v\n", m.Name, p, failed)
				bad++
			case m.MustPass:
				fmt.Printf("selftest ok   (quiet)  %s [%s]\n", m.Name, p)
			case len(failed) == 0:
				fmt.Printf("SELFTEST-MISSED %s [%s]: no claimed obligation failed\n", m.Name, p)
				bad++
			case m.Expect != "" && !anyContains(failed, m.Expect):
				fmt.Printf("SELFTEST-WRONG-OBLIGATION %s [%s]: expected %q, failed %v\n", m.Name, p, m.Expect, failed)
				bad++
			default:
				fmt.Printf("selftest ok   (caught) %s [%s]: %s\n", m.Name, p, strings.Join(failed, ", "))
			}
		}
	}
	fmt.Printf("selftest: %d runs, %d problems\n", run, bad)
	if bad > 0 {
		return 1
	}
	return 0
}

func anyContains(l []string, s string) bool {
	for _, x := range l {
		if strings.Contains(x, s) {
			return true
		}
	}
	return false
}

// failedNames lists the failing obligations of a run that are not known findings.
func failedNames(o *checkOpts, out *checkOutcome) []string {
	known := map[string]bool{}
	for _, k := range loadKnown(o.verif) {
		if k.Property == o.prop && k.Status == "known" {
			known[k.Obligation] = true
		}
	}
	seen := map[string]bool{}
	var names []string
	add := func(n string) {
		if !known[n] && !seen[n] {
			seen[n] = true
			names = append(names, n)
		}
	}
	for _, r := range out.violations {
		add(r.Obl.Name)
	}
	for _, r := range out.vacuous {
		add(r.Obl.Name)
	}
	for _, b := range out.binding {
		add("binding:" + strings.SplitN(b, ":", 2)[0])
	}
	for _, f := range out.frame {
		if !f.OK {
			add(f.Name)
		}
	}
	return names
}
