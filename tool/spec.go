package main

import (
	"go/parser"
	"fmt"
	"go/ast"
	"go/token"
	"go/types"
	"os"
	"path/filepath"
	"regexp"
	"strconv"
	"strings"
)

// specBool evaluates a contract expression to an SMT Bool term.
func (e *Eng) specBool(x SpecExpr, c *ctx) string {
	switch x := x.(type) {
	case *SImplies:
		return "(=> " + e.specBool(x.A, c) + " " + e.specBool(x.B, c) + ")"
	case *SIff:
		return "(= " + e.specBool(x.A, c) + " " + e.specBool(x.B, c) + ")"
	case *SAnd:
		var ps []string
		for _, l := range x.L {
			ps = append(ps, e.specBool(l, c))
		}
		return "(and " + strings.Join(ps, " ") + ")"
	case *SOr:
		var ps []string
		for _, l := range x.L {
			ps = append(ps, e.specBool(l, c))
		}
		return "(or " + strings.Join(ps, " ") + ")"
	case *SNot:
		return smtNot(e.specBool(x.X, c))
	case *SOld:
		if c.old == nil {
			panic("spec: old() without pre-state")
		}
		nc := *c
		nc.st = c.old
		if nc.post == nil {
			nc.post = c.st
		}
		return e.specBool(x.X, &nc)
	case *SQuant:
		nb := map[string]Val{}
		for k, v := range c.bound {
			nb[k] = v
		}
		var binders, guards []string
		for _, v := range x.Vars {
			name := "q." + v
			t, sort := e.quantType(x.Typ, c)
			binders = append(binders, "("+name+" "+sort+")")
			val := Val{K: e.kindOf(t), T: name, GoT: t}
			if x.Typ == "ref" {
				val = Val{K: KRef, T: name}
			}
			nb[v] = val
			if val.K == KInt && !e.bv {
				lo, hi := intRange(t)
				bits, _ := intInfo(t)
				if bits < 64 {
					guards = append(guards, fmt.Sprintf("(<= %s %s) (<= %s %s)", lo, name, name, hi))
				}
			}
		}
		nc := *c
		nc.bound = nb
		body := e.specBool(x.Body, &nc)
		if len(guards) > 0 {
			if x.Forall {
				body = "(=> (and " + strings.Join(guards, " ") + ") " + body + ")"
			} else {
				body = "(and " + strings.Join(guards, " ") + " " + body + ")"
			}
		}
		q := "exists"
		if x.Forall {
			q = "forall"
		}
		return "(" + q + " (" + strings.Join(binders, " ") + ") " + body + ")"
	case *SGo:
		v := e.eval(x.X, c)
		if v.K != KBool {
			panic(fmt.Sprintf("spec %q: not a boolean (kind %d)", x.Src, v.K))
		}
		return v.T
	}
	panic("specBool: unknown node")
}

func (e *Eng) quantType(name string, c *ctx) (types.Type, string) {
	switch name {
	case "ref":
		return nil, "Int"
	case "string":
		return types.Typ[types.String], "Str"
	case "bool":
		return types.Typ[types.Bool], "Bool"
	}
	if o := types.Universe.Lookup(name); o != nil {
		if tn, ok := o.(*types.TypeName); ok {
			return tn.Type(), e.sortOfKind(e.kindOf(tn.Type()), tn.Type())
		}
	}
	if o, ok := e.lookupName(name, c).(*types.TypeName); ok {
		return o.Type(), e.sortOfKind(e.kindOf(o.Type()), o.Type())
	}
	// *T, pkg.T, *pkg.T
	if x, err := parser.ParseExpr(name); err == nil {
		if t := e.resolveTypeExpr(x, c); t != nil {
			return t, e.sortOfKind(e.kindOf(t), t)
		}
	}
	panic("spec: unknown quantifier type " + name)
}

// specFuncs caches the signatures of spec functions found in spec files.
type specSig struct {
	params []string
	result string
}

var rxSpecFun = regexp.MustCompile(`\((?:declare-fun|define-fun|define-fun-rec)\s+(\|[^|]+\||[^\s()]+)\s*\(`)

func (e *Eng) specBuiltin(x *ast.CallExpr, c *ctx) (Val, bool) {
	fun := ast.Unparen(x.Fun)
	switch f := fun.(type) {
	case *ast.Ident:
		switch f.Name {
		case "old":
			if c.old == nil {
				panic("spec: old() without pre-state")
			}
			nc := *c
			nc.st = c.old
			if nc.post == nil {
				nc.post = c.st
			}
			return e.eval(x.Args[0], &nc), true
		case "now":
			// inside old(...): the value of the argument in the state old() was entered from
			if c.post == nil {
				return e.eval(x.Args[0], c), true
			}
			nc := *c
			nc.st = c.post
			nc.post = nil
			return e.eval(x.Args[0], &nc), true
		case "ref":
			v := e.eval(x.Args[0], c)
			if v.K == KSlice {
				return Val{K: KRef, T: v.Ref}, true
			}
			return Val{K: KRef, T: v.T}, true
		case "off":
			v := e.eval(x.Args[0], c)
			return Val{K: KInt, T: v.Off, GoT: types.Typ[types.Int]}, true
		case "fresh":
			// fresh(x): x was allocated after the pre-state of this contract (during the call, for a
			// callee's postcondition; by this function, in its own verification): it is below the
			// allocation frontier of that state
			if c.old == nil {
				panic("spec: fresh() without pre-state")
			}
			v := e.eval(x.Args[0], c)
			t := v.T
			if v.K == KSlice {
				t = v.Ref
			}
			return Val{K: KBool, T: "(< " + t + " " + c.old.front() + ")"}, true
		case "isnil":
			v := e.eval(x.Args[0], c)
			if v.K == KSlice {
				return Val{K: KBool, T: "(= " + v.Ref + " 0)"}, true
			}
			return Val{K: KBool, T: "(= " + v.T + " 0)"}, true
		case "ite":
			cnd := e.eval(x.Args[0], c)
			a, b := e.eval(x.Args[1], c), e.eval(x.Args[2], c)
			a, b, _ = e.unifyAny(a, b)
			return iteVal(cnd.T, a, b), true
		case "implies":
			a, b := e.eval(x.Args[0], c), e.eval(x.Args[1], c)
			return Val{K: KBool, T: "(=> " + a.T + " " + b.T + ")"}, true
		case "dyntypeis":
			v := e.eval(x.Args[0], c)
			tn := types.ExprString(x.Args[1])
			t := e.resolveTypeExpr(x.Args[1], c)
			if t == nil {
				panic("spec: dyntypeis: unknown type " + tn)
			}
			return Val{K: KBool, T: e.dynTypeIs(v, t)}, true
		case "has":
			// has(m, k): the key is present in the map (or read-only table)
			k := e.eval(x.Args[1], c)
			if id, ok := x.Args[0].(*ast.Ident); ok {
				if o, ok := e.lookupNameSafe(id.Name, c).(*types.Var); ok && isPkgLevel(o) {
					if tbl := e.tableOfVar(o); tbl != nil {
						return e.tableLookup(tbl, k, c, true).Elts[1], true
					}
				}
			}
			m := e.eval(x.Args[0], c)
			if m.GoT != nil {
				if u, ok := m.GoT.Underlying().(*types.Map); ok {
					return e.mapLoad(m, k, u, c, true).Elts[1], true
				}
			}
			panic("spec: has() needs a map")
		case "bytes":
			// bytes(s): the byte sequence of a string, as a slice value without a heap cell
			v := e.eval(x.Args[0], c)
			e.declOnce("(declare-fun bofs (Str) (Array Int Int))")
			e.declOnce("(assert (forall ((s Str) (i Int)) (! (= (select (bofs s) i) (sat s i)) :pattern ((select (bofs s) i)))))")
			n := "(slen " + v.T + ")"
			return Val{K: KSlice, Ref: "(- 7)", Off: "0", Len: n, Cap: n, Row: "(bofs " + v.T + ")", GoT: types.NewSlice(types.Typ[types.Uint8])}, true
		case "entry":
			// entry(e): value of e when the enclosing loop was entered
			if c.loopOld == nil {
				panic("spec: entry() outside a loop invariant")
			}
			nc := *c
			nc.st = c.loopOld
			return e.eval(x.Args[0], &nc), true
		case "str":
			// str(bytes): the string with the contents of a byte slice
			v := e.eval(x.Args[0], c)
			return e.convertVal(v, types.Typ[types.String], c, x), true
		}
	case *ast.SelectorExpr:
		if id, ok := f.X.(*ast.Ident); ok && id.Name == "spec" {
			var args []Val
			for _, a := range x.Args {
				args = append(args, e.eval(a, c))
			}
			return e.specApply("spec."+f.Sel.Name, args, c), true
		}
	}
	return Val{}, false
}

func (e *Eng) unifyAny(a, b Val) (Val, Val, types.Type) {
	if a.K == KInt && b.K == KInt {
		return e.unify(a, b)
	}
	if a.K == KSlice && b.K == KRef {
		z := e.idxLit(0)
		b = Val{K: KSlice, Ref: b.T, Off: z, Len: z, Cap: z, GoT: a.GoT}
	}
	if b.K == KSlice && a.K == KRef {
		z := e.idxLit(0)
		a = Val{K: KSlice, Ref: a.T, Off: z, Len: z, Cap: z, GoT: b.GoT}
	}
	return a, b, a.GoT
}

func (e *Eng) resolveTypeExpr(x ast.Expr, c *ctx) types.Type {
	switch x := x.(type) {
	case *ast.StarExpr:
		if t := e.resolveTypeExpr(x.X, c); t != nil {
			return types.NewPointer(t)
		}
	case *ast.Ident:
		if o, ok := e.lookupName(x.Name, c).(*types.TypeName); ok {
			return o.Type()
		}
	case *ast.SelectorExpr:
		if id, ok := x.X.(*ast.Ident); ok {
			if pn, ok := e.lookupName(id.Name, c).(*types.PkgName); ok {
				if o, ok := pn.Imported().Scope().Lookup(x.Sel.Name).(*types.TypeName); ok {
					return o.Type()
				}
			}
		}
	}
	return nil
}

// specApply applies a spec function defined in a spec file.
func (e *Eng) specApply(name string, args []Val, c *ctx) Val {
	sig, ok := e.specSigs()[name]
	if !ok {
		panic("spec: function " + name + " is not defined in the imported spec files " + fmt.Sprint(e.specFiles))
	}
	terms, _ := e.flatArgs(c.st, args)
	if len(terms) != len(sig.params) {
		panic(fmt.Sprintf("spec: %s expects %d SMT arguments, got %d", name, len(sig.params), len(terms)))
	}
	t := "|" + name + "|"
	if len(terms) > 0 {
		t = "(" + t + " " + strings.Join(terms, " ") + ")"
	}
	switch sig.result {
	case "Bool":
		return Val{K: KBool, T: t, GoT: types.Typ[types.Bool]}
	case "Str":
		return Val{K: KStr, T: t, GoT: types.Typ[types.String]}
	case "Int":
		return Val{K: KInt, T: t, GoT: types.Typ[types.UntypedInt]}
	}
	if strings.HasPrefix(sig.result, "(_ BitVec") {
		var w int
		fmt.Sscanf(sig.result, "(_ BitVec %d)", &w)
		gt := map[int]types.Type{8: types.Typ[types.Uint8], 16: types.Typ[types.Uint16], 32: types.Typ[types.Uint32], 64: types.Typ[types.Uint64]}[w]
		return Val{K: KInt, T: t, GoT: gt}
	}
	return Val{K: KRef, T: t}
}

var specSigCache = map[string]map[string]specSig{}

func (e *Eng) specSigs() map[string]specSig {
	key := strings.Join(e.specFiles, ",")
	if m, ok := specSigCache[key]; ok {
		return m
	}
	m := map[string]specSig{}
	for _, f := range e.specFiles {
		data, err := os.ReadFile(filepath.Join(e.u.verif, "contracts", "spec", f))
		if err != nil {
			panic(fmt.Sprintf("spec file %s: %v", f, err))
		}
		parseSpecSigs(string(data), m)
	}
	specSigCache[key] = m
	return m
}

// parseSpecSigs extracts name, parameter sorts and result sort of every
// declare-fun / define-fun / define-fun-rec in an SMT-LIB text.
func parseSpecSigs(src string, m map[string]specSig) {
	toks := sexprTokens(src)
	for i := 0; i+3 < len(toks); i++ {
		if toks[i] != "(" {
			continue
		}
		kw := toks[i+1]
		if kw != "declare-fun" && kw != "define-fun" && kw != "define-fun-rec" && kw != "declare-const" {
			continue
		}
		name := strings.Trim(toks[i+2], "|")
		j := i + 3
		var sig specSig
		if kw == "declare-const" {
			s, _ := readSexpr(toks, j)
			sig.result = s
			m[name] = sig
			continue
		}
		if toks[j] != "(" {
			continue
		}
		// parameter list
		j++
		for j < len(toks) && toks[j] != ")" {
			if kw == "declare-fun" {
				s, nj := readSexpr(toks, j)
				sig.params = append(sig.params, s)
				j = nj
			} else {
				// (name sort)
				if toks[j] != "(" {
					break
				}
				s, nj := readSexpr(toks, j+2)
				sig.params = append(sig.params, s)
				j = nj + 1
			}
		}
		j++
		sig.result, _ = readSexpr(toks, j)
		m[name] = sig
	}
}

func sexprTokens(src string) []string {
	var toks []string
	i := 0
	for i < len(src) {
		ch := src[i]
		switch {
		case ch == ';':
			for i < len(src) && src[i] != '\n' {
				i++
			}
		case ch == '(' || ch == ')':
			toks = append(toks, string(ch))
			i++
		case ch == ' ' || ch == '\n' || ch == '\t' || ch == '\r':
			i++
		case ch == '|':
			j := i + 1
			for j < len(src) && src[j] != '|' {
				j++
			}
			toks = append(toks, src[i:j+1])
			i = j + 1
		case ch == '"':
			j := i + 1
			for j < len(src) && src[j] != '"' {
				j++
			}
			toks = append(toks, src[i:j+1])
			i = j + 1
		default:
			j := i
			for j < len(src) && !strings.ContainsRune(" \n\t\r()", rune(src[j])) {
				j++
			}
			toks = append(toks, src[i:j])
			i = j
		}
	}
	return toks
}

func readSexpr(toks []string, j int) (string, int) {
	if j >= len(toks) {
		return "", j
	}
	if toks[j] != "(" {
		return toks[j], j + 1
	}
	depth := 0
	var parts []string
	for j < len(toks) {
		t := toks[j]
		if t == "(" {
			depth++
		}
		if t == ")" {
			depth--
		}
		parts = append(parts, t)
		j++
		if depth == 0 {
			break
		}
	}
	s := strings.Join(parts, " ")
	s = strings.ReplaceAll(s, "( ", "(")
	s = strings.ReplaceAll(s, " )", ")")
	return s, j
}

// ---- ghost state and hooks ----

func (e *Eng) ghostInit(g GhostDecl, st *State, symbolic bool) Val {
	mk := func(k Kind, sort, zero string, t types.Type) Val {
		if symbolic && g.Init == "" {
			v := Val{K: k, T: e.newSym("ghost."+g.Name, sort), GoT: t}
			return v
		}
		return Val{K: k, T: zero, GoT: t}
	}
	var v Val
	switch {
	case g.Type == "bool":
		v = mk(KBool, "Bool", "false", types.Typ[types.Bool])
	case g.Type == "int":
		if e.bv {
			v = mk(KInt, "(_ BitVec 64)", "(_ bv0 64)", types.Typ[types.Int])
		} else {
			v = mk(KInt, "Int", "0", types.Typ[types.Int])
		}
	case g.Type == "byte":
		if e.bv {
			v = mk(KInt, "(_ BitVec 8)", "(_ bv0 8)", types.Typ[types.Uint8])
		} else {
			v = mk(KInt, "Int", "0", types.Typ[types.Uint8])
		}
	case g.Type == "string":
		v = mk(KStr, "Str", "str.empty", types.Typ[types.String])
	case g.Type == "ref":
		v = mk(KRef, "Int", "0", nil)
	case strings.HasPrefix(g.Type, "*"):
		// a typed pointer: *T with T a named type of the package under verification
		var t types.Type
		for _, p := range e.u.pkgs {
			if tn, ok := p.Types.Scope().Lookup(g.Type[1:]).(*types.TypeName); ok && (p == e.pkg || t == nil) {
				t = types.NewPointer(tn.Type())
			}
		}
		v = mk(KRef, "Int", "0", t)
	case strings.HasPrefix(g.Type, "map["):
		i := strings.Index(g.Type, "]")
		ks, vs := ghostSort(g.Type[4:i]), ghostSort(g.Type[i+1:])
		if e.bv && (g.Type[i+1:] == "byte" || g.Type[i+1:] == "uint8") {
			vs = "(_ BitVec 8)"
		}
		if e.bv && g.Type[i+1:] == "int" {
			vs = "(_ BitVec 64)"
		}
		zero := map[string]string{"Bool": "false", "Int": "0", "Str": "str.empty", "(_ BitVec 8)": "(_ bv0 8)", "(_ BitVec 64)": "(_ bv0 64)"}[vs]
		v = Val{K: KGMap, GKey: ks, GVal: vs}
		if symbolic && g.Init == "" {
			v.T = e.newSym("ghost."+g.Name, "(Array "+ks+" "+vs+")")
		} else {
			v.T = "((as const (Array " + ks + " " + vs + ")) " + zero + ")"
		}
	default:
		panic("ghost: unsupported type " + g.Type)
	}
	if g.Init != "" && v.K != KGMap {
		x, err := parseSpec(g.Init)
		if err != nil {
			panic(err)
		}
		c := &ctx{st: st, spec: true, noOblig: true, pkg: e.pkg, bound: map[string]Val{}, env: map[string]Val{}}
		if v.K == KBool {
			v.T = e.specBool(x, c)
		} else {
			v.T = e.eval(x.(*SGo).X, c).T
		}
	}
	return v
}

func ghostSort(t string) string {
	switch t {
	case "bool":
		return "Bool"
	case "string":
		return "Str"
	}
	return "Int"
}

func (e *Eng) freshGhost(name string, old Val, st *State) Val {
	n := old
	switch old.K {
	case KGMap:
		n.T = e.newSym("ghost."+name, "(Array "+old.GKey+" "+old.GVal+")")
	case KBool:
		n.T = e.newSym("ghost."+name, "Bool")
	case KStr:
		n.T = e.newSym("ghost."+name, "Str")
	default:
		if e.bv && old.GoT == types.Typ[types.Uint8] {
			n.T = e.newSym("ghost."+name, "(_ BitVec 8)")
		} else if e.bv && old.K == KInt {
			n.T = e.newSym("ghost."+name, "(_ BitVec 64)")
		} else {
			n.T = e.newSym("ghost."+name, "Int")
		}
	}
	return n
}

func (e *Eng) activeHookSets() map[string]bool {
	m := map[string]bool{}
	if e.fi != nil && e.fi.Con != nil {
		for _, s := range e.fi.Con.UseHooks {
			m[s] = true
		}
	}
	return m
}

func (e *Eng) hooksFor(when, callee string) []*Hook {
	if e.depth > 0 && e.hookDepth > 0 {
		return nil
	}
	act := e.activeHookSets()
	var out []*Hook
	for _, h := range e.u.cs.Hooks {
		if h.When == when && h.Callee == callee && act[h.Set] {
			out = append(out, h)
		}
	}
	return out
}

// addHookGhosts adds the ghost variables assigned by hooks that may fire inside n.
func (e *Eng) addHookGhosts(n ast.Node, a *assignedSet) {
	act := e.activeHookSets()
	if len(act) == 0 {
		return
	}
	callees := map[string]bool{}
	ast.Inspect(n, func(n ast.Node) bool {
		if call, ok := n.(*ast.CallExpr); ok {
			if name := e.staticCalleeName(call); name != "" {
				callees[name] = true
			}
		}
		return true
	})
	for _, h := range e.u.cs.Hooks {
		if !act[h.Set] || !callees[h.Callee] {
			continue
		}
		for _, s := range h.Body {
			ast.Inspect(s, func(n ast.Node) bool {
				switch n := n.(type) {
				case *ast.AssignStmt:
					for _, l := range n.Lhs {
						if id := rootIdent(l); id != nil {
							a.ghosts[id.Name] = true
						}
					}
				case *ast.IncDecStmt:
					if id := rootIdent(n.X); id != nil {
						a.ghosts[id.Name] = true
					}
				}
				return true
			})
		}
	}
}

func rootIdent(x ast.Expr) *ast.Ident {
	switch x := x.(type) {
	case *ast.Ident:
		return x
	case *ast.IndexExpr:
		return rootIdent(x.X)
	}
	return nil
}

func (e *Eng) staticCalleeName(x *ast.CallExpr) string {
	fun := ast.Unparen(x.Fun)
	switch f := fun.(type) {
	case *ast.Ident:
		if fn, ok := e.info.Uses[f].(*types.Func); ok {
			return calleeName(fn, nil)
		}
		if _, ok := e.info.Uses[f].(*types.Var); ok {
			return "var:" + f.Name
		}
	case *ast.SelectorExpr:
		if sel, ok := e.info.Selections[f]; ok {
			if sel.Kind() == types.MethodVal {
				return calleeName(sel.Obj().(*types.Func), e.info.TypeOf(f.X))
			}
			return ""
		}
		if fn, ok := e.info.Uses[f.Sel].(*types.Func); ok {
			return calleeName(fn, nil)
		}
	}
	return ""
}

func (e *Eng) runHooks(when, callee string, recv *Val, args []Val, res Val, at *ast.CallExpr, c *ctx) {
	if c.spec {
		return
	}
	hs := e.hooksFor(when, callee)
	if len(hs) == 0 {
		return
	}
	all := args
	if recv != nil {
		all = append([]Val{*recv}, args...)
	}
	for _, h := range hs {
		env := map[string]Val{}
		for i, n := range h.Args {
			if n == "_" {
				continue
			}
			if strings.HasSuffix(n, "...") {
				continue
			}
			if i < len(all) {
				env[n] = all[i]
			}
		}
		if when == "after" {
			var rs []Val
			if res.K == KTuple {
				rs = res.Elts
			} else if res.K != KUnit {
				rs = []Val{res}
			}
			for i, n := range h.Results {
				if n != "_" && i < len(rs) {
					env[n] = rs[i]
				}
			}
		}
		hc := &ctx{st: c.st, old: e.entry, env: env, spec: true, noOblig: true, pkg: e.pkg, scopePos: at.Pos(), bound: map[string]Val{}}
		e.hookDepth++
		e.ghostBlock(h.Body, hc, h, at)
		e.hookDepth--
	}
}

// ghostBlock executes ghost statements: assignments to ghost variables and
// ghost map entries, if, assert(...), assume(...).
func (e *Eng) ghostBlock(stmts []ast.Stmt, c *ctx, h *Hook, at *ast.CallExpr) {
	for _, s := range stmts {
		if c.st.dead {
			return
		}
		switch s := s.(type) {
		case *ast.ExprStmt:
			call, ok := s.X.(*ast.CallExpr)
			if !ok {
				panic("ghost: unsupported statement")
			}
			name := call.Fun.(*ast.Ident).Name
			label := ""
			args := call.Args
			if len(args) == 2 {
				if bl, ok := args[0].(*ast.BasicLit); ok && bl.Kind == token.STRING {
					label = strings.Trim(bl.Value, "\"`")
					args = args[1:]
				}
			}
			src := types.ExprString(args[0])
			if w, ok := args[0].(*ast.CallExpr); ok {
				if id, ok := w.Fun.(*ast.Ident); ok && id.Name == "__spec" && len(w.Args) == 1 {
					src, _ = strconv.Unquote(w.Args[0].(*ast.BasicLit).Value)
				}
			}
			sx, err := parseSpec(src)
			if err != nil {
				panic(err)
			}
			var g string
			func() {
				defer func() {
					if r := recover(); r != nil {
						msg := fmt.Sprint(r)
						if name == "assert" && strings.Contains(msg, "unknown name") {
							// the assertion speaks about a variable that does not exist at this call
							// site (a call added where the contract did not expect one): it cannot hold
							g = "false"
							return
						}
						panic(r)
					}
				}()
				g = e.specBool(sx, c)
			}()
			switch name {
			case "assert":
				ord := e.callOrd[at]
				var props []string
				for strings.HasPrefix(label, "[") {
					// "[C04] label": the assertion belongs to the listed properties only
					i := strings.Index(label, "]")
					if i < 0 {
						break
					}
					props = append(props, strings.Fields(strings.ReplaceAll(label[1:i], ",", " "))...)
					label = strings.TrimSpace(label[i+1:])
				}
				oname := fmt.Sprintf("%s/%s:%s", shortName(h.Callee), h.When, label)
				if label == "" {
					// unlabelled assertions are told apart by call ordinal and hook line
					oname = fmt.Sprintf("call#%d:%s/%s:L%d", ord, shortName(h.Callee), h.When, h.Line)
				}
				nb := len(e.obls)
				e.oblig("hook-assert", oname, c.st, g, at.Pos())
				if len(props) > 0 && len(e.obls) > nb {
					e.obls[len(e.obls)-1].Note = "props:" + strings.Join(props, ",")
				}
				c.st.assume(g)
			case "assume":
				c.st.assume(g)
			default:
				panic("ghost: unknown call " + name)
			}
		case *ast.AssignStmt:
			for i, l := range s.Lhs {
				rhs := e.ghostRHS(s.Rhs[i], c)
				e.ghostAssign(l, rhs, c)
			}
		case *ast.IncDecStmt:
			id := s.X.(*ast.Ident)
			cur := c.st.ghost[id.Name]
			op := "+"
			if s.Tok == token.DEC {
				op = "-"
			}
			cur.T = "(" + op + " " + cur.T + " 1)"
			c.st.ghost[id.Name] = cur
		case *ast.IfStmt:
			src := types.ExprString(s.Cond)
			sx, err := parseSpec(src)
			if err != nil {
				panic(err)
			}
			cond := e.specBool(sx, c)
			nBase := len(c.st.pc)
			t, f := c.st.clone(), c.st.clone()
			t.assume(cond)
			f.assume(smtNot(cond))
			e.ghostBlock(s.Body.List, c.with(t), h, at)
			if s.Else != nil {
				switch el := s.Else.(type) {
				case *ast.BlockStmt:
					e.ghostBlock(el.List, c.with(f), h, at)
				case *ast.IfStmt:
					e.ghostBlock([]ast.Stmt{el}, c.with(f), h, at)
				}
			}
			m := mergeStates(cond, t, f, nBase)
			*c.st = *m
		case *ast.BlockStmt:
			e.ghostBlock(s.List, c, h, at)
		default:
			panic(fmt.Sprintf("ghost: unsupported statement %T", s))
		}
	}
}

func (e *Eng) ghostRHS(x ast.Expr, c *ctx) Val {
	src := types.ExprString(x)
	if hasSpecial(src) {
		sx, err := parseSpec(src)
		if err != nil {
			panic(err)
		}
		return Val{K: KBool, T: e.specBool(sx, c), GoT: types.Typ[types.Bool]}
	}
	return e.eval(x, c)
}

func (e *Eng) ghostAssign(l ast.Expr, v Val, c *ctx) {
	switch l := l.(type) {
	case *ast.Ident:
		cur, ok := c.st.ghost[l.Name]
		if !ok {
			panic("ghost: assignment to undeclared ghost variable " + l.Name)
		}
		if v.K == KSlice && cur.K == KRef {
			v = Val{K: KRef, T: v.Ref}
		}
		v.GoT = cur.GoT
		if cur.K == KGMap {
			v.GKey, v.GVal = cur.GKey, cur.GVal
		}
		c.st.ghost[l.Name] = e.nameTerm(c.st, v, "g."+l.Name)
	case *ast.IndexExpr:
		id, ok := l.X.(*ast.Ident)
		if !ok {
			panic("ghost: unsupported assignment target")
		}
		cur, ok := c.st.ghost[id.Name]
		if !ok || cur.K != KGMap {
			panic("ghost: " + id.Name + " is not a ghost map")
		}
		k := e.eval(l.Index, c)
		kt := k.T
		if k.K == KSlice {
			kt = k.Ref
		}
		cur.T = "(store " + cur.T + " " + kt + " " + v.T + ")"
		c.st.ghost[id.Name] = cur
	default:
		panic("ghost: unsupported assignment target")
	}
}
