package main

import (
	"encoding/json"
	"flag"
	"fmt"
	"os"
	"path/filepath"
	"strings"
)

// tryReplay attempts to run the solver's counterexample against the real code.
// It returns the tail of the VIOLATION line ("" when no replay is available).
// Models over the heap encoding are not translated into Go inputs (DESIGN §8),
// so there is nothing to run: the replay file carries the obligation instead.
func tryReplay(o *checkOpts, r *Result, body map[string]any) string { return "" }

// cmdReplay re-decides one recorded violation: it reads a replay file,
// (1) re-runs the SMT text stored in it on the solvers, so that the recorded
// answer can be reproduced without the source tree, and (2) regenerates the
// obligation of that name from /repo's current working tree and reports
// whether it is still undischarged. Exit 1 with a VIOLATION line if it is.
func cmdReplay(args []string) int {
	fs := flag.NewFlagSet("replay", flag.ExitOnError)
	prop := fs.String("prop", "", "property id")
	file := fs.String("file", "", "replay file written by a check")
	repo := fs.String("repo", envOr("VERIF_REPO", "/repo"), "repository")
	verif := fs.String("verif", envOr("VERIF_DIR", "/verif"), "verif dir")
	fs.Parse(args)
	data, err := os.ReadFile(*file)
	if err != nil {
		fmt.Fprintln(os.Stderr, "replay:", err)
		return 2
	}
	var body map[string]any
	if err := json.Unmarshal(data, &body); err != nil {
		fmt.Fprintln(os.Stderr, "replay:", err)
		return 2
	}
	name, _ := body["obligation"].(string)
	if p, _ := body["property"].(string); *prop == "" {
		*prop = p
	}
	fmt.Printf("replay: property %s, obligation %s (%v)\n", *prop, name, body["kind"])
	// (1) the stored query
	if out, _ := body["solver_output"].(string); strings.Contains(out, ";;;; SMT\n") {
		smt := out[strings.Index(out, ";;;; SMT\n")+len(";;;; SMT\n"):]
		dir, _ := os.MkdirTemp("", "govc-replay-")
		defer os.RemoveAll(dir)
		f := filepath.Join(dir, "stored.smt2")
		os.WriteFile(f, []byte(smt), 0o644)
		for _, s := range solvers {
			st, _, secs := runSolver(s, 20, f)
			fmt.Printf("replay: stored query on %-6s: %s (%.1fs)  [unsat would mean the obligation holds]\n", s.name, st, secs)
		}
	}
	if fi, _ := body["failing_input"].(string); fi != "" {
		fmt.Printf("replay: recorded failing input: %s\n", fi)
	}
	// (2) the obligation on the current tree
	o := &checkOpts{repo: *repo, verif: *verif, prop: *prop, tier: "quick", quiet: true, noEvidence: true}
	out, err := runCheck(o)
	if err != nil {
		fmt.Printf("VIOLATION property=%s replay=%s obligation=load no-failing-input-found\n", *prop, *file)
		return 1
	}
	if *prop == "C05" && strings.HasPrefix(name, "bounded:") {
		sd := runLiteralStandin(o)
		if !sd.OK {
			fmt.Printf("VIOLATION property=%s replay=%s obligation=%s failing-input=%s (bounded stand-in run on the real code)\n", *prop, *file, name, sd.Failing)
			return 1
		}
		fmt.Printf("replay: %s passes on the current tree: %s\n", name, sd.Summary)
		return 0
	}
	failing := false
	for _, r := range out.violations {
		if r.Obl.Name == name {
			failing = true
		}
	}
	for _, r := range out.vacuous {
		if r.Obl.Name == name {
			failing = true
		}
	}
	for _, f := range out.frame {
		if f.Name == name && !f.OK {
			failing = true
			fmt.Printf("replay: %s\n", f.Detail)
		}
	}
	for _, b := range out.binding {
		if "binding:"+strings.SplitN(b, ":", 2)[0] == name {
			failing = true
		}
	}
	if failing {
		fmt.Printf("VIOLATION property=%s replay=%s obligation=%s no-failing-input-found\n", *prop, *file, name)
		return 1
	}
	fmt.Printf("replay: obligation %s is discharged on the current tree\n", name)
	return 0
}
