package main

import (
	"encoding/json"
	"flag"
	"fmt"
	"os"
	"os/exec"
	"path/filepath"
	"strings"
)

// tryReplay runs a concrete search for a failing input on the real code, after an obligation
// of a function with a replay harness (contracts/replay/<package>.go.txt) has failed. The
// harness is injected into the function's package with `go test -overlay` (nothing is written
// into /repo), calls the real function on candidate inputs and evaluates the failed
// postcondition on what it returned. It returns the tail of the VIOLATION line ("" when no
// harness exists or no failing input was found; the caller then prints no-failing-input-found).
// Solver models are not translated: strings are an uninterpreted sort in the encoding, so
// a model fixes predicates of a string, not its bytes (DESIGN §8).
func tryReplay(o *checkOpts, r *Result, body map[string]any) string {
	if os.Getenv("GOVC_NO_REPLAY") != "" || r == nil || r.Obl == nil {
		return ""
	}
	fn, rest, ok := strings.Cut(r.Obl.Name, "/")
	if !ok {
		return ""
	}
	// closures and hook assertions of callers are not replayable units
	if strings.Contains(fn, "#") {
		return ""
	}
	label := rest
	if i := strings.LastIndex(rest, ":"); i >= 0 {
		label = rest[i+1:]
	}
	file, _, _ := strings.Cut(r.Obl.Pos, ":")
	if file == "" || !strings.HasPrefix(file, o.repo) {
		return ""
	}
	pkgDir := filepath.Dir(file)
	pkgShort, _, _ := strings.Cut(fn, ".")
	tmpl := filepath.Join(o.verif, "contracts", "replay", pkgShort+".go.txt")
	src, err := os.ReadFile(tmpl)
	if err != nil || !strings.Contains(string(src), "\""+fn+"\"") {
		return ""
	}
	out, cmdline := runReplayHarness(o, pkgDir, tmpl, fn, label)
	body["replay_harness"] = tmpl
	body["replay_command"] = cmdline
	body["replay_output"] = tailLines(out, 40)
	var first, match string
	for _, l := range strings.Split(out, "\n") {
		if !strings.HasPrefix(l, "REPLAY-FAIL ") {
			continue
		}
		if first == "" {
			first = l
		}
		if match == "" && strings.HasPrefix(l, "REPLAY-FAIL label="+label+" ") {
			match = l
		}
	}
	pick := match
	if pick == "" {
		pick = first
	}
	if pick == "" {
		return ""
	}
	in := pick[strings.Index(pick, "input=")+len("input="):]
	lab := strings.TrimPrefix(strings.Fields(pick)[1], "label=")
	body["failing_input"] = in
	body["failing_label"] = lab
	if len(in) > 400 {
		in = in[:400] + "..."
	}
	return fmt.Sprintf("failing-input=[%s] violates=%s (real %s run by the replay harness; bounded search, not the solver's model)", in, lab, fn)
}

func tailLines(s string, n int) string {
	ls := strings.Split(strings.TrimRight(s, "\n"), "\n")
	if len(ls) > n {
		ls = ls[len(ls)-n:]
	}
	return strings.Join(ls, "\n")
}

// runReplayHarness runs `go test -overlay` in pkgDir with the harness mapped to a test file
// that does not exist on disk. A mutation given through GOVC_MUTATE is part of the overlay.
func runReplayHarness(o *checkOpts, pkgDir, tmpl, fn, label string) (string, string) {
	dir, err := os.MkdirTemp("", "govc-replayrun-")
	if err != nil {
		return "", ""
	}
	defer os.RemoveAll(dir)
	repl := map[string]string{filepath.Join(pkgDir, "zz_verif_replay_test.go"): tmpl}
	i := 0
	for path, data := range o.overlay {
		f := filepath.Join(dir, fmt.Sprintf("mut%d.go", i))
		i++
		os.WriteFile(f, data, 0o644)
		repl[path] = f
	}
	ov, _ := json.Marshal(map[string]any{"Replace": repl})
	ovf := filepath.Join(dir, "overlay.json")
	os.WriteFile(ovf, ov, 0o644)
	args := []string{"test", "-overlay", ovf, "-vet=off", "-count=1", "-v", "-timeout", "120s", "-run", "^TestVerifReplay$", "."}
	cmd := exec.Command("go", args...)
	cmd.Dir = pkgDir
	cmd.Env = append(os.Environ(), "VERIF_REPLAY_FUNC="+fn, "VERIF_REPLAY_LABEL="+label, "GOCACHE="+filepath.Join(dir, "gocache-unused"))
	// share the default build cache (read-mostly) unless it is not writable
	cmd.Env = cmd.Env[:len(cmd.Env)-1]
	out, _ := cmd.CombinedOutput()
	return string(out), fmt.Sprintf("cd %s && VERIF_REPLAY_FUNC=%s go test -overlay <zz_verif_replay_test.go=%s> -vet=off -count=1 -v -timeout 120s -run '^TestVerifReplay$' .", pkgDir, fn, tmpl)
}

// cmdReplay re-decides one recorded violation: it reads a replay file,
// (1) re-runs the SMT text stored in it on the solvers, so that the recorded
// answer can be reproduced without the source tree, and (2) regenerates the
// obligation of that name from /repo's current working tree and reports
// whether it is still undischarged. Exit 1 with a VIOLATION line if it is.
func cmdReplay(args []string) int {
	fs := flag.NewFlagSet("replay", flag.ExitOnError)
	prop := fs.String("prop", "", "property id")
	file := fs.String("file", "", "replay file written by a check")
	repo := fs.String("repo", envOr("VERIF_REPO", "/repo"), "repository")
	verif := fs.String("verif", envOr("VERIF_DIR", "/verif"), "verif dir")
	fs.Parse(args)
	data, err := os.ReadFile(*file)
	if err != nil {
		fmt.Fprintln(os.Stderr, "replay:", err)
		return 2
	}
	var body map[string]any
	if err := json.Unmarshal(data, &body); err != nil {
		fmt.Fprintln(os.Stderr, "replay:", err)
		return 2
	}
	name, _ := body["obligation"].(string)
	if p, _ := body["property"].(string); *prop == "" {
		*prop = p
	}
	fmt.Printf("replay: property %s, obligation %s (%v)\n", *prop, name, body["kind"])
	// (1) the stored query
	if out, _ := body["solver_output"].(string); strings.Contains(out, ";;;; SMT\n") {
		smt := out[strings.Index(out, ";;;; SMT\n")+len(";;;; SMT\n"):]
		dir, _ := os.MkdirTemp("", "govc-replay-")
		defer os.RemoveAll(dir)
		f := filepath.Join(dir, "stored.smt2")
		os.WriteFile(f, []byte(smt), 0o644)
		for _, s := range solvers {
			st, _, secs := runSolver(s, 20, f)
			fmt.Printf("replay: stored query on %-6s: %s (%.1fs)  [unsat would mean the obligation holds]\n", s.name, st, secs)
		}
	}
	if fi, _ := body["failing_input"].(string); fi != "" {
		fmt.Printf("replay: recorded failing input: %s\n", fi)
	}
	// (2) the obligation on the current tree
	o := &checkOpts{repo: *repo, verif: *verif, prop: *prop, tier: "quick", quiet: true, noEvidence: true}
	out, err := runCheck(o)
	if err != nil {
		fmt.Printf("VIOLATION property=%s replay=%s obligation=load no-failing-input-found\n", *prop, *file)
		return 1
	}
	if *prop == "C05" && strings.HasPrefix(name, "bounded:") {
		sd := runLiteralStandin(o)
		if !sd.OK {
			fmt.Printf("VIOLATION property=%s replay=%s obligation=%s failing-input=%s (bounded stand-in run on the real code)\n", *prop, *file, name, sd.Failing)
			return 1
		}
		fmt.Printf("replay: %s passes on the current tree: %s\n", name, sd.Summary)
		return 0
	}
	failing := false
	tail := "no-failing-input-found"
	for _, r := range out.violations {
		if r.Obl.Name == name {
			if !failing {
				if rep := tryReplay(o, r, map[string]any{}); rep != "" {
					tail = rep
				}
			}
			failing = true
		}
	}
	for _, r := range out.vacuous {
		if r.Obl.Name == name {
			failing = true
		}
	}
	for _, f := range out.frame {
		if f.Name == name && !f.OK {
			failing = true
			fmt.Printf("replay: %s\n", f.Detail)
		}
	}
	for _, b := range out.binding {
		if "binding:"+strings.SplitN(b, ":", 2)[0] == name {
			failing = true
		}
	}
	if failing {
		fmt.Printf("VIOLATION property=%s replay=%s obligation=%s %s\n", *prop, *file, name, tail)
		return 1
	}
	fmt.Printf("replay: obligation %s is discharged on the current tree\n", name)
	return 0
}
