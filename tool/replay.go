package main

// tryReplay attempts to run the solver's counterexample against the real code.
// It returns the tail of the VIOLATION line ("" when no replay is available).
func tryReplay(o *checkOpts, r *Result, body map[string]any) string { return "" }
