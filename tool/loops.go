package main

import (
	"fmt"
	"go/ast"
	"go/token"
	"go/types"
)

func (e *Eng) loopSpec(n ast.Node) (*LoopSpec, int) {
	k, ok := e.loopOrd[n]
	if !ok {
		return nil, -1
	}
	if e.con == nil {
		return nil, k
	}
	return e.con.Loops[k], k
}

func (e *Eng) invCtx(st *State, pos token.Pos) *ctx {
	return &ctx{st: st, old: e.entry, loopOld: e.curLoopEntry, env: e.entryEnvFor(), spec: true, noOblig: true, pkg: e.pkg, scopePos: pos, bound: map[string]Val{}}
}

// enterLoop records the state at loop entry for entry(...) in invariants.
func (e *Eng) enterLoop(st *State) func() {
	saved := e.curLoopEntry
	e.curLoopEntry = st.clone()
	return func() { e.curLoopEntry = saved }
}

func (e *Eng) entryEnvFor() map[string]Val {
	if e.depth > 0 {
		return map[string]Val{}
	}
	return e.entryEnv
}

func (e *Eng) clauseName(prefix string, k int, c Clause) string {
	if c.Label != "" {
		return prefix + ":" + c.Label
	}
	return fmt.Sprintf("%s#%d", prefix, k)
}

func (e *Eng) checkInvs(ls *LoopSpec, no int, phase string, st *State, pos token.Pos) {
	if ls == nil {
		return
	}
	for k, inv := range ls.Invariants {
		g := e.specBool(inv.Expr, e.invCtx(st, pos))
		e.oblig("invariant-"+phase, e.clauseName(fmt.Sprintf("loop%d/%s", no, phase), k, inv), st, g, pos)
	}
}

func (e *Eng) assumeInvs(ls *LoopSpec, st *State, pos token.Pos) {
	if ls == nil {
		return
	}
	for _, inv := range ls.Invariants {
		st.assume(e.specBool(inv.Expr, e.invCtx(st, pos)))
	}
}

// iterGhost runs the "iter" ghost statements of a loop at the start of an iteration.
func (e *Eng) iterGhost(ls *LoopSpec, st *State, pos token.Pos) {
	if ls == nil || len(ls.Iter) == 0 {
		return
	}
	c := e.invCtx(st, pos)
	e.hookDepth++
	e.ghostBlock(ls.Iter, c, &Hook{Callee: "iter", When: "iter"}, &ast.CallExpr{Lparen: pos})
	e.hookDepth--
}

// iterGhostNames lists the ghost variables assigned by iter statements.
func iterGhostNames(ls *LoopSpec, a *assignedSet) {
	if ls == nil {
		return
	}
	for _, s := range ls.Iter {
		ast.Inspect(s, func(n ast.Node) bool {
			if as, ok := n.(*ast.AssignStmt); ok {
				for _, l := range as.Lhs {
					switch x := l.(type) {
					case *ast.Ident:
						a.ghosts[x.Name] = true
					case *ast.IndexExpr:
						if id, ok := x.X.(*ast.Ident); ok {
							a.ghosts[id.Name] = true
						}
					}
				}
			}
			return true
		})
	}
}

// loopHavoc forgets everything the loop may assign.
func (e *Eng) loopHavoc(s ast.Node, st *State) {
	e.loopHavocLS(s, st, nil)
}

func (e *Eng) loopHavocLS(s ast.Node, st *State, ls *LoopSpec) {
	a := e.assignedIn(s)
	e.addHookGhosts(s, a)
	iterGhostNames(ls, a)
	e.havocSet(a, st)
}

func (e *Eng) forLoop(s *ast.ForStmt, st *State) []Out {
	ls, no := e.loopSpec(s)
	if s.Init != nil {
		outs := e.stmt(s.Init, st)
		if len(outs) != 1 || outs[0].kind != Normal {
			return outs
		}
		st = outs[0].st
	}
	pos := s.Body.Lbrace + 1
	defer e.enterLoop(st)()
	e.checkInvs(ls, no, "init", st, pos)
	h := st.clone()
	e.loopHavocLS(s, h, ls)
	e.assumeInvs(ls, h, pos)
	var outs []Out
	b := h.clone()
	if s.Cond != nil {
		ex := h.clone()
		cnd := e.eval(s.Cond, e.pctx(ex))
		ex.assume(smtNot(cnd.T))
		outs = append(outs, Out{st: ex, kind: Normal})
		cb := e.eval(s.Cond, e.pctx(b))
		b.assume(cb.T)
	}
	b.defers = nil
	e.iterGhost(ls, b, pos)
	for _, o := range e.block(s.Body.List, b) {
		switch {
		case o.kind == Normal, o.kind == Continue && o.label == "":
			nx := o.st
			if s.Post != nil {
				e.stmt(s.Post, nx)
			}
			e.checkInvs(ls, no, "preserve", nx, pos)
		case o.kind == Break && o.label == "":
			o.kind = Normal
			o.st.defers = st.defers
			outs = append(outs, o)
		default:
			o.st.defers = append(append([]deferred(nil), st.defers...), o.st.defers...)
			outs = append(outs, o)
		}
	}
	return outs
}

func (e *Eng) rangeLoop(s *ast.RangeStmt, st *State) []Out {
	ls, no := e.loopSpec(s)
	c := e.pctx(st)
	xt := e.info.TypeOf(s.X)
	x := e.eval(s.X, c)
	pos := s.Body.Lbrace + 1
	var keyObj, valObj *types.Var
	if id, ok := s.Key.(*ast.Ident); ok && id.Name != "_" {
		keyObj, _ = e.info.ObjectOf(id).(*types.Var)
	}
	if id, ok := s.Value.(*ast.Ident); ok && id.Name != "_" {
		valObj, _ = e.info.ObjectOf(id).(*types.Var)
	}
	var intT types.Type = types.Typ[types.Int]
	// the iteration domain
	var n string
	indexed := false
	var elemAt func(st *State, i string) Val
	switch u := xt.Underlying().(type) {
	case *types.Slice:
		n, indexed = x.Len, true
		elemAt = func(st *State, i string) Val {
			return e.loadLoc(st, e.elemBase(u.Elem()), []string{x.Ref, e.add(x.Off, i)}, u.Elem())
		}
	case *types.Array:
		n, indexed = e.idxLit(u.Len()), true
		elemAt = func(st *State, i string) Val {
			return e.loadLoc(st, e.elemBase(u.Elem()), []string{x.T, i}, u.Elem())
		}
	case *types.Pointer:
		if a, ok := u.Elem().Underlying().(*types.Array); ok {
			n, indexed = e.idxLit(a.Len()), true
			elemAt = func(st *State, i string) Val {
				return e.loadLoc(st, e.elemBase(a.Elem()), []string{x.T, i}, a.Elem())
			}
		}
	case *types.Basic:
		if u.Info()&types.IsInteger != 0 {
			n, indexed = e.idxTerm(x, c), true
			if keyObj != nil {
				intT = keyObj.Type()
			}
		}
		// strings iterate over runes: not indexed by byte; handled as opaque below
	}
	if !indexed {
		return e.opaqueRange(s, st, ls, no, keyObj, valObj, x)
	}
	defer e.enterLoop(st)()
	// entry: i = 0
	ent := st.clone()
	if keyObj != nil {
		ent.vars[keyObj] = Val{K: KInt, T: e.idxLit(0), GoT: intT}
	}
	if valObj != nil {
		// value var is in scope for invariants only inside the body
		ent.vars[valObj] = e.symFor(valObj.Name(), valObj.Type(), ent)
	}
	ent.ghost["_i"] = Val{K: KInt, T: e.idxLit(0), GoT: intT}
	e.checkInvs(ls, no, "init", ent, pos)
	// arbitrary iteration
	h := st.clone()
	e.loopHavocLS(s.Body, h, ls)
	i := e.newSym("i", e.idxSort())
	h.assume(e.le(e.idxLit(0), i))
	h.assume(e.le(i, n))
	iv := Val{K: KInt, T: i, GoT: intT}
	if keyObj != nil {
		h.vars[keyObj] = iv
	}
	if valObj != nil {
		h.vars[valObj] = e.symFor(valObj.Name(), valObj.Type(), h)
	}
	h.ghost["_i"] = iv
	e.assumeInvs(ls, h, pos)
	ex := h.clone()
	ex.assume("(= " + i + " " + n + ")")
	delete(ex.ghost, "_i")
	outs := []Out{{st: ex, kind: Normal}}
	b := h.clone()
	b.assume(e.lt(i, n))
	b.defers = nil
	if valObj != nil && elemAt != nil {
		b.vars[valObj] = e.copyVal(b, elemAt(b, i))
	}
	e.iterGhost(ls, b, pos)
	for _, o := range e.block(s.Body.List, b) {
		switch {
		case o.kind == Normal, o.kind == Continue && o.label == "":
			nx := o.st
			ni := Val{K: KInt, T: e.add(i, e.idxLit(1)), GoT: intT}
			if keyObj != nil {
				nx.vars[keyObj] = ni
			}
			nx.ghost["_i"] = ni
			e.checkInvs(ls, no, "preserve", nx, pos)
		case o.kind == Break && o.label == "":
			o.kind = Normal
			delete(o.st.ghost, "_i")
			o.st.defers = st.defers
			outs = append(outs, o)
		default:
			delete(o.st.ghost, "_i")
			o.st.defers = append(append([]deferred(nil), st.defers...), o.st.defers...)
			outs = append(outs, o)
		}
	}
	return outs
}

// opaqueRange handles range over maps, strings (runes), channels and iterator
// functions: the loop variables are unconstrained in every iteration.
func (e *Eng) opaqueRange(s *ast.RangeStmt, st *State, ls *LoopSpec, no int, keyObj, valObj *types.Var, x Val) []Out {
	pos := s.Body.Lbrace + 1
	defer e.enterLoop(st)()
	e.checkInvs(ls, no, "init", st, pos)
	h := st.clone()
	e.loopHavocLS(s.Body, h, ls)
	if keyObj != nil {
		h.vars[keyObj] = e.symFor(keyObj.Name(), keyObj.Type(), h)
	}
	if valObj != nil {
		h.vars[valObj] = e.symFor(valObj.Name(), valObj.Type(), h)
	}
	e.assumeInvs(ls, h, pos)
	ex := h.clone()
	outs := []Out{{st: ex, kind: Normal}}
	b := h.clone()
	b.defers = nil
	// map iteration: the key is present and the value is the stored one
	if m, ok := e.info.TypeOf(s.X).Underlying().(*types.Map); ok && keyObj != nil {
		if tbl := e.tableOf(s.X); tbl != nil {
			r := e.tableLookup(tbl, b.vars[keyObj], e.pctx(b), true)
			b.assume(r.Elts[1].T)
			if valObj != nil && r.Elts[0].K != KSlice {
				b.vars[valObj] = r.Elts[0]
			}
		} else {
			r := e.mapLoad(x, b.vars[keyObj], m, e.pctx(b), true)
			b.assume(r.Elts[1].T)
			if valObj != nil {
				b.vars[valObj] = r.Elts[0]
			}
		}
	}
	e.iterGhost(ls, b, pos)
	for _, o := range e.block(s.Body.List, b) {
		switch {
		case o.kind == Normal, o.kind == Continue && o.label == "":
			e.checkInvs(ls, no, "preserve", o.st, pos)
		case o.kind == Break && o.label == "":
			o.kind = Normal
			o.st.defers = st.defers
			outs = append(outs, o)
		default:
			o.st.defers = append(append([]deferred(nil), st.defers...), o.st.defers...)
			outs = append(outs, o)
		}
	}
	return outs
}
