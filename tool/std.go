package main

import (
	"fmt"
	"go/ast"
	"go/token"
	"go/types"
	"reflect"
	"sort"
	"strings"
)

// stdShortcut expands strings.HasPrefix / strings.HasSuffix with a short literal
// second argument into their definition (character equalities), so that no
// quantifier instantiation is needed.
func (e *Eng) stdShortcut(name string, args []Val, c *ctx) (Val, bool) {
	if e.bv {
		return Val{}, false
	}
	switch name {
	case "strings.HasPrefix", "strings.HasSuffix":
		if len(args) != 2 || args[0].K != KStr || args[1].K != KStr {
			return Val{}, false
		}
		lit, ok := litFromName(args[1].T)
		if args[1].T == "str.empty" {
			return Val{K: KBool, T: "true", GoT: types.Typ[types.Bool]}, true
		}
		if !ok || len(lit) > 16 {
			return Val{}, false
		}
		s := args[0].T
		parts := []string{fmt.Sprintf("(>= (slen %s) %d)", s, len(lit))}
		for i := 0; i < len(lit); i++ {
			if name == "strings.HasPrefix" {
				parts = append(parts, fmt.Sprintf("(= (sat %s %d) %d)", s, i, lit[i]))
			} else {
				parts = append(parts, fmt.Sprintf("(= (sat %s (- (slen %s) %d)) %d)", s, s, len(lit)-i, lit[i]))
			}
		}
		return Val{K: KBool, T: "(and " + strings.Join(parts, " ") + ")", GoT: types.Typ[types.Bool]}, true
	}
	return Val{}, false
}

// resTypesOf lists the result types of a (possibly tuple) result type.
func resTypesOf(t types.Type) []types.Type {
	if t == nil {
		return nil
	}
	if tup, ok := t.(*types.Tuple); ok {
		var out []types.Type
		for i := 0; i < tup.Len(); i++ {
			out = append(out, tup.At(i).Type())
		}
		return out
	}
	return []types.Type{t}
}

// assumeGen adds a fact that may mention quantified variables of the enclosing
// contract expression: such a fact is generalised over those variables (it
// comes from a callee contract, which holds for all arguments).
func (e *Eng) assumeGen(c *ctx, term string) {
	if term == "true" {
		return
	}
	var binders []string
	for name, v := range c.bound {
		q := "q." + name
		if !strings.Contains(term, q) {
			continue
		}
		binders = append(binders, "("+q+" "+e.sortOfKind(v.K, v.GoT)+")")
	}
	if len(binders) > 0 {
		term = "(forall (" + strings.Join(binders, " ") + ") " + term + ")"
	}
	c.st.assume(term)
}

const nameThreshold = 96

// nameTerm replaces a large term by a fresh constant defined equal to it, so
// that later terms stay small (the definition is a path fact).
func (e *Eng) nameTerm(st *State, v Val, hint string) Val {
	def := func(t, sort string) string {
		if len(t) <= nameThreshold || strings.Contains(t, "q.") {
			return t
		}
		s := e.newSym("t."+hint, sort)
		st.pc = append(st.pc, "(= "+s+" "+t+")")
		return s
	}
	switch v.K {
	case KInt, KBool, KStr, KRef:
		v.T = def(v.T, e.sortOfKind(v.K, v.GoT))
	case KSlice:
		v.Ref = def(v.Ref, "Int")
		v.Off = def(v.Off, e.idxSort())
		v.Len = def(v.Len, e.idxSort())
		v.Cap = def(v.Cap, e.idxSort())
	case KTuple:
		for i := range v.Elts {
			v.Elts[i] = e.nameTerm(st, v.Elts[i], hint)
		}
	case KGMap:
		v.T = def(v.T, "(Array "+v.GKey+" "+v.GVal+")")
	}
	return v
}

// nameHeaps names large heap terms.
func (e *Eng) nameHeaps(st *State) {
	for _, k := range sortedKeys(st.heap) {
		t := st.heap[k]
		if len(t) > 4*nameThreshold {
			s := e.newSym("h."+sanitize(k), e.heapSort(k))
			st.pc = append(st.pc, "(= "+s+" "+t+")")
			st.heap[k] = s
		}
	}
}

// ownedSlices finds local slice variables that only ever hold nil, fresh
// allocations or appends to themselves: their backing array is never one
// handed in by the caller.
func (e *Eng) ownedSlices(body ast.Node) map[types.Object]bool {
	cand := map[types.Object]bool{}
	bad := map[types.Object]bool{}
	var ok func(rhs ast.Expr, self types.Object) bool
	ok = func(rhs ast.Expr, self types.Object) bool {
		rhs = ast.Unparen(rhs)
		switch r := rhs.(type) {
		case *ast.Ident:
			return r.Name == "nil"
		case *ast.CompositeLit:
			return true
		case *ast.CallExpr:
			if id, isId := ast.Unparen(r.Fun).(*ast.Ident); isId {
				if b, isB := e.info.Uses[id].(*types.Builtin); isB {
					switch b.Name() {
					case "make":
						return true
					case "append":
						if len(r.Args) == 0 {
							return false
						}
						if a0, isId := ast.Unparen(r.Args[0]).(*ast.Ident); isId {
							if a0.Name == "nil" || e.info.ObjectOf(a0) == self {
								return true
							}
						}
						return ok(r.Args[0], self)
					}
				}
			}
			if tv, isT := e.info.Types[r.Fun]; isT && tv.IsType() {
				if at, have := e.info.Types[r.Args[0]]; have && e.kindOf(at.Type) == KStr {
					return true // []byte(string) allocates
				}
			}
		}
		return false
	}
	ast.Inspect(body, func(n ast.Node) bool {
		switch n := n.(type) {
		case *ast.AssignStmt:
			for i, l := range n.Lhs {
				id, isId := ast.Unparen(l).(*ast.Ident)
				if !isId {
					continue
				}
				o := e.info.ObjectOf(id)
				if o == nil || e.kindOf(o.Type()) != KSlice {
					continue
				}
				if vo, isVar := o.(*types.Var); !isVar || isPkgLevel(vo) {
					continue
				}
				if len(n.Lhs) == len(n.Rhs) && ok(n.Rhs[i], o) {
					cand[o] = true
				} else {
					bad[o] = true
				}
			}
		case *ast.ValueSpec:
			for i, id := range n.Names {
				o := e.info.ObjectOf(id)
				if o == nil || e.kindOf(o.Type()) != KSlice {
					continue
				}
				if i < len(n.Values) {
					if ok(n.Values[i], o) {
						cand[o] = true
					} else {
						bad[o] = true
					}
				} else if len(n.Values) == 0 {
					cand[o] = true
				} else {
					bad[o] = true
				}
			}
		case *ast.RangeStmt:
			for _, x := range []ast.Expr{n.Key, n.Value} {
				if id, isId := x.(*ast.Ident); isId {
					if o := e.info.ObjectOf(id); o != nil {
						bad[o] = true
					}
				}
			}
		case *ast.UnaryExpr:
			if n.Op == token.AND {
				if id, isId := ast.Unparen(n.X).(*ast.Ident); isId {
					if o := e.info.ObjectOf(id); o != nil {
						bad[o] = true
					}
				}
			}
		}
		return true
	})
	for o := range bad {
		delete(cand, o)
	}
	return cand
}

func sortedObjs(m map[types.Object]Val) []types.Object {
	var ks []types.Object
	for k := range m {
		ks = append(ks, k)
	}
	sort.Slice(ks, func(i, j int) bool {
		if ks[i].Pos() != ks[j].Pos() {
			return ks[i].Pos() < ks[j].Pos()
		}
		return ks[i].Name() < ks[j].Name()
	})
	return ks
}

// holdsRefs reports whether the memory a value of type t points to can contain references.
func (e *Eng) holdsRefs(t types.Type) bool {
	if t == nil {
		return true
	}
	isRef := func(x types.Type) bool { k := e.kindOf(x); return k == KRef || k == KSlice }
	switch u := derefType(t).Underlying().(type) {
	case *types.Slice:
		return isRef(u.Elem())
	case *types.Array:
		return isRef(u.Elem())
	case *types.Struct:
		for i := 0; i < u.NumFields(); i++ {
			if isRef(u.Field(i).Type()) {
				return true
			}
		}
		return false
	case *types.Basic:
		return false
	}
	return true
}

// refOrigin: before anything has been forgotten on this path, every reference
// read from memory is either pre-existing (>= 0) or one of this path's allocations.
func (e *Eng) refOrigin(st *State, ref string) {
	if st.tainted || isLiteralTerm(ref) || strings.Contains(ref, "q.") {
		return
	}
	alts := []string{"(>= " + ref + " 0)"}
	for _, a := range st.allocs {
		alts = append(alts, "(= "+ref+" "+a+")")
	}
	for _, a := range st.known {
		alts = append(alts, "(= "+ref+" "+a+")")
	}
	if len(alts) == 1 {
		e.assumeOnce(st, alts[0])
	} else {
		e.assumeOnce(st, "(or "+strings.Join(alts, " ")+")")
	}
}

// isAccessorPkg: methods of the go/types, go/ast, ... libraries are modelled as
// uninterpreted accessors of the value they are called on (embedding is not unfolded).
func isAccessorPkg(fn *types.Func) bool {
	if fn == nil || fn.Pkg() == nil {
		return false
	}
	_, ok := accessorPkgs[fn.Pkg().Path()]
	return ok
}

// repoGlobal reports whether a global-variable heap key belongs to a package of /repo.
func repoGlobal(n string) bool {
	for _, p := range []string{"main.", "literals.", "ctrlflow.", "linker.", "ssa2ast.", "asthelper."} {
		if strings.HasPrefix(n, "|H0:G:"+p) {
			return true
		}
	}
	return false
}

func isRangeVar(info *types.Info, rs *ast.RangeStmt, o types.Object) bool {
	if o == nil {
		return false
	}
	for _, x := range []ast.Expr{rs.Key, rs.Value} {
		if id, ok := x.(*ast.Ident); ok && info.ObjectOf(id) == o {
			return true
		}
	}
	return false
}

// implicitAddr: x.M() with a pointer-receiver method on an addressable
// non-struct variable takes &x; the variable may then change behind our back.
func (e *Eng) implicitAddr(x ast.Expr, fn *types.Func) {
	sig, _ := fn.Type().(*types.Signature)
	if sig == nil || sig.Recv() == nil {
		return
	}
	if _, ptr := sig.Recv().Type().(*types.Pointer); !ptr {
		return
	}
	id, ok := ast.Unparen(x).(*ast.Ident)
	if !ok {
		return
	}
	o, ok := e.info.ObjectOf(id).(*types.Var)
	if !ok || isPkgLevel(o) {
		return
	}
	switch o.Type().Underlying().(type) {
	case *types.Struct, *types.Array, *types.Pointer:
		return
	}
	if e.escaped == nil {
		e.escaped = map[types.Object]bool{}
	}
	e.escaped[o] = true
}

// havocFieldsExceptTag forgets the fields of a struct cell except those whose
// struct tag says <key>:"-" (which encoding/json and friends never touch).
func (e *Eng) havocFieldsExceptTag(st *State, v Val, key string) {
	if v.K != KRef || v.GoT == nil {
		e.havocPointee(st, v)
		return
	}
	t := derefType(v.GoT)
	u, ok := t.Underlying().(*types.Struct)
	if !ok {
		e.havocPointee(st, v)
		return
	}
	for i := 0; i < u.NumFields(); i++ {
		f := u.Field(i)
		if reflectTagGet(u.Tag(i), key) == "-" || !f.Exported() {
			continue
		}
		for _, cmp := range e.comps(f.Type()) {
			k := e.fieldBase(f, ownerName(t)) + cmp
			h := e.heapGet(st, k)
			el := strings.TrimSuffix(strings.TrimPrefix(e.heapSort(k), "(Array Int "), ")")
			e.heapSet(st, k, "(store "+h+" "+v.T+" "+e.newSym("fld", el)+")")
		}
	}
}

func reflectTagGet(tag, key string) string {
	return reflect.StructTag(tag).Get(key)
}

// closureUnit makes a function literal assigned to a local variable
// ("parent#var") a unit of verification: its parameters are symbolic and so
// are the variables it captures.
func (u *Universe) closureUnit(pkgPath, key string) *FuncInfo {
	parentKey, varName, _ := strings.Cut(key, "#")
	parent := u.funcs[pkgPath+"."+parentKey]
	if parent == nil {
		return nil
	}
	var lit *ast.FuncLit
	ast.Inspect(parent.Decl.Body, func(n ast.Node) bool {
		switch n := n.(type) {
		case *ast.AssignStmt:
			for i, l := range n.Lhs {
				if id, ok := l.(*ast.Ident); ok && id.Name == varName && i < len(n.Rhs) {
					if fl, ok := n.Rhs[i].(*ast.FuncLit); ok && lit == nil {
						lit = fl
					}
				}
			}
		case *ast.ValueSpec:
			for i, id := range n.Names {
				if id.Name == varName && i < len(n.Values) {
					if fl, ok := n.Values[i].(*ast.FuncLit); ok && lit == nil {
						lit = fl
					}
				}
			}
		}
		return true
	})
	if lit == nil {
		return nil
	}
	sig, _ := parent.Pkg.TypesInfo.TypeOf(lit).(*types.Signature)
	return &FuncInfo{Key: key, Pkg: parent.Pkg, Obj: parent.Obj, Sig: sig,
		Decl: &ast.FuncDecl{Name: ast.NewIdent(varName), Type: lit.Type, Body: lit.Body}}
}

func (u *Universe) isRepoPkg(path string) bool {
	return path == garblePath || strings.HasPrefix(path, garblePath+"/")
}

// privateUntil computes, for every owned slice variable, the source position
// before which its backing array cannot have been stored anywhere or handed
// to a callee: the earliest escaping use, widened to the start of the
// outermost loop or function literal that contains that use.
func (e *Eng) privateUntil(body *ast.BlockStmt) map[types.Object]token.Pos {
	out := map[types.Object]token.Pos{}
	for o := range e.owned {
		out[o] = body.End()
	}
	hasGoto := false
	var stack []ast.Node
	benign := map[*ast.Ident]bool{}
	ast.Inspect(body, func(n ast.Node) bool {
		switch x := n.(type) {
		case *ast.BranchStmt:
			if x.Tok == token.GOTO {
				hasGoto = true
			}
		case *ast.AssignStmt:
			for _, l := range x.Lhs {
				if id, ok := ast.Unparen(l).(*ast.Ident); ok {
					benign[id] = true
				}
			}
			if len(x.Lhs) == len(x.Rhs) {
				for i, r := range x.Rhs {
					if c, ok := ast.Unparen(r).(*ast.CallExpr); ok && len(c.Args) > 0 {
						if f, ok := ast.Unparen(c.Fun).(*ast.Ident); ok {
							if b, ok := e.info.Uses[f].(*types.Builtin); ok && b.Name() == "append" {
								a0, ok0 := ast.Unparen(c.Args[0]).(*ast.Ident)
								l0, ok1 := ast.Unparen(x.Lhs[i]).(*ast.Ident)
								if ok0 && ok1 && e.info.ObjectOf(a0) == e.info.ObjectOf(l0) {
									benign[a0] = true
								}
							}
						}
					}
				}
			}
		case *ast.CallExpr:
			if f, ok := ast.Unparen(x.Fun).(*ast.Ident); ok {
				if b, ok := e.info.Uses[f].(*types.Builtin); ok && (b.Name() == "len" || b.Name() == "cap") && len(x.Args) == 1 {
					if id, ok := ast.Unparen(x.Args[0]).(*ast.Ident); ok {
						benign[id] = true
					}
				}
			}
		case *ast.IndexExpr:
			if id, ok := ast.Unparen(x.X).(*ast.Ident); ok {
				benign[id] = true
			}
		case *ast.RangeStmt:
			if id, ok := ast.Unparen(x.X).(*ast.Ident); ok {
				benign[id] = true
			}
		}
		return true
	})
	var walk func(n ast.Node) bool
	walk = func(n ast.Node) bool {
		if n == nil {
			stack = stack[:len(stack)-1]
			return true
		}
		stack = append(stack, n)
		if id, ok := n.(*ast.Ident); ok && !benign[id] {
			if o := e.info.Uses[id]; o != nil && e.owned[o] {
				p := id.Pos()
				for _, anc := range stack {
					switch anc.(type) {
					case *ast.ForStmt, *ast.RangeStmt, *ast.FuncLit:
						if anc.Pos() < p {
							p = anc.Pos()
						}
					}
				}
				if p < out[o] {
					out[o] = p
				}
			}
		}
		return true
	}
	ast.Inspect(body, walk)
	if hasGoto {
		for o := range out {
			out[o] = body.Pos()
		}
	}
	return out
}

// privFacts: a reference read from memory is not the backing array of a
// slice this function still holds privately.
func (e *Eng) privFacts(st *State, ref string) {
	if isLiteralTerm(ref) || strings.Contains(ref, "q.") || e.curPos == token.NoPos {
		return
	}
	for o, until := range e.privUntil {
		if e.curPos >= until {
			continue
		}
		cur, ok := st.vars[o]
		if !ok || cur.K != KSlice || cur.Ref == ref {
			continue
		}
		e.assumeOnce(st, "(or (= "+ref+" 0) (not (= "+ref+" "+cur.Ref+")))")
	}
}
