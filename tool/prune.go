package main

import "strings"

// symbolsOf collects the symbolic constants (fresh symbols contain '!', initial
// heaps start with |H) mentioned by a term.
func symbolsOf(t string, into map[string]bool) {
	for _, tk := range sexprTokens(t) {
		if strings.HasPrefix(tk, "new.") {
			continue // allocation identities connect everything; they never carry a dependency
		}
		if strings.Contains(tk, "!") && tk != "!" || strings.HasPrefix(tk, "|H") {
			into[tk] = true
		}
	}
}

// pruneObl keeps only the hypotheses connected to the goal through shared
// symbolic constants (cone of influence). Returns nil when nothing is dropped.
func pruneObl(o *Obl) *Obl {
	if len(o.PC) < 12 || o.Expect == "sat" {
		return nil
	}
	want := map[string]bool{}
	symbolsOf(o.Goal, want)
	syms := make([]map[string]bool, len(o.PC))
	for i, p := range o.PC {
		syms[i] = map[string]bool{}
		symbolsOf(p, syms[i])
	}
	keep := make([]bool, len(o.PC))
	for changed := true; changed; {
		changed = false
		for i := range o.PC {
			if keep[i] {
				continue
			}
			hit := len(syms[i]) == 0 // closed facts (axiom-like) are always kept
			for s := range syms[i] {
				if want[s] {
					hit = true
					break
				}
			}
			if hit {
				keep[i] = true
				changed = true
				for s := range syms[i] {
					want[s] = true
				}
			}
		}
	}
	n := 0
	var pc []string
	for i, p := range o.PC {
		if keep[i] {
			pc = append(pc, p)
			n++
		}
	}
	if n == len(o.PC) {
		return nil
	}
	c := *o
	c.PC = pc
	return &c
}
