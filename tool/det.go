package main

import (
	"fmt"
	"go/types"
	"regexp"
	"strings"
)

// DetClause: "deterministic [when C] in e1, e2, ...": two executions that agree
// on e1, e2, ... (and satisfy C) return equal results, whatever the rest of the
// program state is. Proved by self-composition over the symbolic return paths.
type DetClause struct {
	Label string
	When  *Clause
	In    []Clause
	Line  int
}

func splitTopCommas(s string) []string {
	var out []string
	depth, last := 0, 0
	for i := 0; i < len(s); i++ {
		switch s[i] {
		case '(', '[', '{':
			depth++
		case ')', ']', '}':
			depth--
		case ',':
			if depth == 0 {
				out = append(out, strings.TrimSpace(s[last:i]))
				last = i + 1
			}
		}
	}
	if t := strings.TrimSpace(s[last:]); t != "" {
		out = append(out, t)
	}
	return out
}

var rxDeclConst = regexp.MustCompile(`^\(declare-const (\|[^|]+\||\S+) `)

// renamer maps every symbolic constant of a run to a primed copy.
type renamer struct {
	set map[string]bool
}

func newRenamer(decls []string) *renamer {
	r := &renamer{set: map[string]bool{}}
	for _, d := range decls {
		m := rxDeclConst.FindStringSubmatch(d)
		if m == nil {
			continue
		}
		n := m[1]
		if strings.HasPrefix(n, "|fn:") {
			continue // addresses of functions are the same in both runs
		}
		if strings.HasPrefix(n, "|H0:G:") && !repoGlobal(n) {
			continue // package-level variables of other packages (base64.RawStdEncoding, os.Stderr): fixed values
		}
		r.set[n] = true
	}
	return r
}

func primed(n string) string {
	if strings.HasSuffix(n, "|") {
		return n[:len(n)-1] + "^|"
	}
	return n + "^"
}

func (r *renamer) term(t string) string {
	toks := sexprTokens(t)
	var b strings.Builder
	for i, tk := range toks {
		if r.set[tk] {
			tk = primed(tk)
		}
		if i > 0 && tk != ")" && toks[i-1] != "(" {
			b.WriteByte(' ')
		}
		b.WriteString(tk)
	}
	return b.String()
}

func (r *renamer) val(v Val) Val {
	n := v
	switch v.K {
	case KSlice:
		n.Ref, n.Off, n.Len, n.Cap = r.term(v.Ref), r.term(v.Off), r.term(v.Len), r.term(v.Cap)
		if v.Row != "" {
			n.Row = r.term(v.Row)
		}
	case KTuple:
		n.Elts = nil
		for _, e := range v.Elts {
			n.Elts = append(n.Elts, r.val(e))
		}
	case KUnit:
	default:
		n.T = r.term(v.T)
	}
	return n
}

func (r *renamer) state(s *State) *State {
	n := s.clone()
	for k, v := range n.vars {
		n.vars[k] = r.val(v)
	}
	for k, v := range n.ghost {
		n.ghost[k] = r.val(v)
	}
	for k, t := range n.heap {
		n.heap[k] = r.term(t)
	}
	for i, p := range n.pc {
		n.pc[i] = r.term(p)
	}
	n.suffix = "'"
	return n
}

// canonBytes abstracts a byte slice to the string of its contents.
func (e *Eng) canonBytes(st *State, v Val) string {
	e.declOnce("(declare-fun sofb ((Array Int Int) Int Int) Str)")
	t := "(sofb " + e.rowOf(st, v) + " " + v.Off + " " + v.Len + ")"
	e.assumeOnce(st, "(= (slen "+t+") "+v.Len+")")
	return t
}

func isByteSlice(t types.Type) bool {
	if t == nil {
		return false
	}
	s, ok := t.Underlying().(*types.Slice)
	if !ok {
		return false
	}
	b, ok := s.Elem().Underlying().(*types.Basic)
	return ok && b.Kind() == types.Uint8
}

// agree states that a value has the same meaning in both runs.
func (e *Eng) agree(a Val, sa *State, b Val, sb *State) (string, error) {
	switch a.K {
	case KInt, KBool, KStr:
		return "(= " + a.T + " " + b.T + ")", nil
	case KSlice:
		if isByteSlice(a.GoT) {
			return "(= " + e.canonBytes(sa, a) + " " + e.canonBytes(sb, b) + ")", nil
		}
		ra, rb := e.rowOf(sa, a), e.rowOf(sb, b)
		return fmt.Sprintf("(and (= %s %s) (forall ((i Int)) (=> (and (<= 0 i) (< i %s)) (= (select %s (+ %s i)) (select %s (+ %s i))))))", a.Len, b.Len, a.Len, ra, a.Off, rb, b.Off), nil
	case KRef:
		if a.GoT != nil {
			switch u := a.GoT.Underlying().(type) {
			case *types.Array:
				key := e.elemBase(u.Elem())
				ra := "(select " + e.heapGet(sa, key) + " " + a.T + ")"
				rb := "(select " + e.heapGet(sb, key) + " " + b.T + ")"
				if bt, ok := u.Elem().Underlying().(*types.Basic); ok && bt.Kind() == types.Uint8 && !e.bv {
					e.declOnce("(declare-fun sofb ((Array Int Int) Int Int) Str)")
					return fmt.Sprintf("(= (sofb %s 0 %d) (sofb %s 0 %d))", ra, u.Len(), rb, u.Len()), nil
				}
				return fmt.Sprintf("(forall ((i Int)) (=> (and (<= 0 i) (< i %d)) (= (select %s i) (select %s i))))", u.Len(), ra, rb), nil
			case *types.Struct:
				var parts []string
				for i := 0; i < u.NumFields(); i++ {
					f := u.Field(i)
					base := e.fieldBase(f, ownerName(a.GoT))
					fa := e.loadLoc(sa, base, []string{a.T}, f.Type())
					fb := e.loadLoc(sb, base, []string{b.T}, f.Type())
					p, err := e.agree(fa, sa, fb, sb)
					if err != nil {
						return "", err
					}
					parts = append(parts, p)
				}
				return "(and true " + strings.Join(parts, " ") + ")", nil
			}
		}
		// opaque references (rand source, interfaces): same abstract value
		return "(= " + a.T + " " + b.T + ")", nil
	}
	return "", fmt.Errorf("deterministic: cannot compare values of kind %d", a.K)
}

// sameResult: the results of the two runs are observably equal.
func (e *Eng) sameResult(a Val, sa *State, b Val, sb *State) (string, error) {
	switch a.K {
	case KInt, KBool:
		return "(= " + a.T + " " + b.T + ")", nil
	case KStr:
		return fmt.Sprintf("(and (= (slen %s) (slen %s)) (forall ((i Int)) (=> (and (<= 0 i) (< i (slen %s))) (= (sat %s i) (sat %s i)))))", a.T, b.T, a.T, a.T, b.T), nil
	case KSlice:
		ra, rb := e.rowOf(sa, a), e.rowOf(sb, b)
		return fmt.Sprintf("(and (= %s %s) (forall ((i Int)) (=> (and (<= 0 i) (< i %s)) (= (select %s (+ %s i)) (select %s (+ %s i))))))", a.Len, b.Len, a.Len, ra, a.Off, rb, b.Off), nil
	case KTuple:
		var parts []string
		for i := range a.Elts {
			p, err := e.sameResult(a.Elts[i], sa, b.Elts[i], sb)
			if err != nil {
				return "", err
			}
			parts = append(parts, p)
		}
		return "(and true " + strings.Join(parts, " ") + ")", nil
	case KRef:
		if a.GoT != nil {
			if u, ok := a.GoT.Underlying().(*types.Array); ok {
				key := e.elemBase(u.Elem())
				ra := "(select " + e.heapGet(sa, key) + " " + a.T + ")"
				rb := "(select " + e.heapGet(sb, key) + " " + b.T + ")"
				return fmt.Sprintf("(forall ((i Int)) (=> (and (<= 0 i) (< i %d)) (= (select %s i) (select %s i))))", u.Len(), ra, rb), nil
			}
		}
	case KUnit:
		return "true", nil
	}
	return "", fmt.Errorf("deterministic: unsupported result kind %d", a.K)
}

// detObligations builds the self-composition obligations of a function.
func (e *Eng) detObligations(con *Contract, outs []Out, name string) error {
	if len(con.Det) == 0 {
		return nil
	}
	var rets []Out
	for _, o := range outs {
		if !o.st.dead && (o.kind == Return || o.kind == Normal) {
			rets = append(rets, o)
		}
	}
	rn := newRenamer(e.decls)
	entryB := rn.state(e.entry)
	for k, d := range con.Det {
		label := d.Label
		if label == "" {
			label = fmt.Sprint(k)
		}
		ca := &ctx{st: e.entry.clone(), env: e.entryEnv, spec: true, noOblig: true, pkg: e.pkg, scopePos: e.fi.Decl.Body.Lbrace + 1, bound: map[string]Val{}}
		envB := map[string]Val{}
		for n, v := range e.entryEnv {
			envB[n] = rn.val(v)
		}
		cb := &ctx{st: entryB.clone(), env: envB, spec: true, noOblig: true, pkg: e.pkg, scopePos: ca.scopePos, bound: map[string]Val{}}
		// parameters live in st.vars too
		var pre []string
		if d.When != nil {
			pre = append(pre, e.specBool(d.When.Expr, ca), e.specBool(d.When.Expr, cb))
		}
		for _, in := range d.In {
			g, ok := in.Expr.(*SGo)
			if !ok {
				return fmt.Errorf("deterministic: %q is not a plain expression", in.Src)
			}
			va := e.eval(g.X, ca)
			vb := e.eval(g.X, cb)
			p, err := e.agree(va, ca.st, vb, cb.st)
			if err != nil {
				return err
			}
			pre = append(pre, p)
		}
		// facts learned while evaluating the inputs (ranges) belong to the premises
		pre = append(pre, ca.st.pc[len(e.entry.pc):]...)
		pre = append(pre, cb.st.pc[len(entryB.pc):]...)
		for i, p := range rets {
			for j := i; j < len(rets); j++ {
				q := rets[j]
				qs := rn.state(q.st)
				var qr []Val
				for _, v := range q.rets {
					qr = append(qr, rn.val(v))
				}
				var goals []string
				for x := range p.rets {
					if x >= len(qr) {
						break
					}
					g, err := e.sameResult(p.rets[x], p.st, qr[x], qs)
					if err != nil {
						return err
					}
					goals = append(goals, g)
				}
				pc := append([]string(nil), p.st.pc...)
				pc = append(pc, qs.pc...)
				pc = append(pc, pre...)
				o := &Obl{
					Name: fmt.Sprintf("%s/deterministic:%s", name, label), Fn: name, Kind: "deterministic",
					PC: pc, Goal: "(and true " + strings.Join(goals, " ") + ")", Expect: "unsat", BV: e.bv,
					Note: "pair",
				}
				e.obls = append(e.obls, o)
			}
		}
	}
	// the primed copies of all symbolic constants
	var extra []string
	for _, d := range e.decls {
		if m := rxDeclConst.FindStringSubmatch(d); m != nil && rn.set[m[1]] {
			extra = append(extra, strings.Replace(d, m[1], primed(m[1]), 1))
		}
	}
	for _, d := range extra {
		e.declOnce(d)
	}
	return nil
}

// detCallResult gives a call to a deterministic function its result as an
// uninterpreted function of the declared inputs.
func (e *Eng) detCallResult(con *Contract, fi *FuncInfo, name string, env map[string]Val, resT types.Type, c *ctx) (Val, bool) {
	for _, d := range con.Det {
		if d.When != nil {
			continue
		}
		cc := e.calleePkgCtx(con, fi, c, env, nil)
		var args []Val
		for _, in := range d.In {
			g, ok := in.Expr.(*SGo)
			if !ok {
				return Val{}, false
			}
			v := e.eval(g.X, cc)
			if v.K == KSlice && isByteSlice(v.GoT) {
				v = Val{K: KStr, T: e.canonBytes(c.st, v), GoT: types.Typ[types.String]}
			}
			args = append(args, v)
		}
		return e.ufApply("det:"+shortName(name), args, resT, c), true
	}
	return Val{}, false
}
