package main

import (
	"fmt"
	"go/ast"
	"go/constant"
	"go/token"
	"go/types"
	"math/big"
	"strconv"
	"strings"

	"golang.org/x/tools/go/packages"
)

// ctx is the evaluation context of one expression.
type ctx struct {
	st       *State
	old      *State         // pre-state for old(...)
	loopOld  *State         // state at loop entry for entry(...)
	post     *State         // inside old(...): the state old() was entered from, for now(...)
	env      map[string]Val // spec-level names: callee params, results, hook arguments
	bound    map[string]Val // quantified variables
	spec     bool           // contract expression (names resolved by scope lookup)
	pkg      *packages.Package
	scopePos token.Pos
	noOblig  bool // suppress safety obligations (spec expressions)
}

func (c *ctx) with(st *State) *ctx {
	n := *c
	n.st = st
	return &n
}

// site names a program point by its source text (plus an occurrence number
// when the same text appears more than once in the function), so that edits
// elsewhere in the function do not rename it.
func (e *Eng) site(kind string, n ast.Node) string {
	if s, ok := e.siteName[n]; ok {
		return kind + "#" + s
	}
	if k, ok := e.siteOrd[n]; ok {
		return fmt.Sprintf("%s#%d", kind, k)
	}
	return kind + "#x"
}

func (e *Eng) safety(kind string, n ast.Node, c *ctx, goal string) {
	if c.spec || c.noOblig {
		return
	}
	e.oblig("safety:"+kind, e.site("safety:"+kind, n), c.st, goal, n.Pos())
	if kind != "overflow" {
		// execution continues only if the operation did not panic
		e.assumeOnce(c.st, goal)
	}
}

func (e *Eng) typeOf(x ast.Expr, c *ctx) types.Type {
	if c.spec {
		return nil
	}
	return e.info.TypeOf(x)
}

func (e *Eng) constToVal(tv types.TypeAndValue, st *State) (Val, bool) {
	if tv.Value == nil {
		return Val{}, false
	}
	t := tv.Type
	switch tv.Value.Kind() {
	case constant.Int:
		if e.kindOf(t) != KInt {
			return Val{}, false
		}
		n, ok := new(big.Int).SetString(tv.Value.ExactString(), 10)
		if !ok {
			return Val{}, false
		}
		return Val{K: KInt, T: e.intLit(n, t), GoT: t}, true
	case constant.Bool:
		return Val{K: KBool, T: fmt.Sprint(constant.BoolVal(tv.Value)), GoT: t}, true
	case constant.String:
		if e.kindOf(t) != KStr {
			return Val{}, false
		}
		return Val{K: KStr, T: e.strLit(constant.StringVal(tv.Value)), GoT: t}, true
	}
	return Val{}, false
}

func (e *Eng) fresh_(name string, t types.Type, st *State) Val {
	return e.symFor(name, t, st)
}

// eval evaluates an expression to a symbolic value.
func (e *Eng) eval(x ast.Expr, c *ctx) Val {
	if !c.spec {
		if tv, ok := e.info.Types[x]; ok && tv.Value != nil {
			if v, ok := e.constToVal(tv, c.st); ok {
				return v
			}
		}
	}
	switch x := x.(type) {
	case *ast.ParenExpr:
		return e.eval(x.X, c)
	case *ast.Ident:
		return e.evalIdent(x, c)
	case *ast.BasicLit:
		return e.evalBasicLit(x, c)
	case *ast.SelectorExpr:
		return e.evalSelector(x, c)
	case *ast.StarExpr:
		p := e.eval(x.X, c)
		return e.deref(p, x, c)
	case *ast.UnaryExpr:
		return e.evalUnary(x, c)
	case *ast.BinaryExpr:
		return e.evalBinary(x, c)
	case *ast.IndexExpr:
		return e.evalIndex(x, c)
	case *ast.SliceExpr:
		return e.evalSliceExpr(x, c)
	case *ast.CallExpr:
		return e.evalCall(x, c)
	case *ast.CompositeLit:
		return e.evalCompositeLit(x, c)
	case *ast.FuncLit:
		r := e.alloc(c.st, "closure")
		return Val{K: KRef, T: r, GoT: e.typeOf(x, c), Lit: x}
	case *ast.TypeAssertExpr:
		return e.evalTypeAssert(x, c, false)
	case *ast.KeyValueExpr:
		return e.eval(x.Value, c)
	case *ast.IndexListExpr:
		// generic instantiation: function value
		return e.unknownExpr(x, c, "generic-instantiation")
	}
	return e.unknownExpr(x, c, fmt.Sprintf("expr:%T", x))
}

func (e *Eng) unknownExpr(x ast.Expr, c *ctx, why string) Val {
	e.abstract(why, x.Pos())
	t := e.typeOf(x, c)
	if t == nil {
		return Val{K: KRef, T: e.newSym("unk", "Int")}
	}
	return e.symFor("unk", t, c.st)
}

func (e *Eng) evalBasicLit(x *ast.BasicLit, c *ctx) Val {
	switch x.Kind {
	case token.INT:
		n, ok := new(big.Int).SetString(strings.ReplaceAll(x.Value, "_", ""), 0)
		if !ok {
			n = big.NewInt(0)
		}
		return Val{K: KInt, T: e.intLit(n, types.Typ[types.UntypedInt]), GoT: types.Typ[types.UntypedInt]}
	case token.CHAR:
		r, _, _, err := strconv.UnquoteChar(x.Value[1:len(x.Value)-1], '\'')
		if err != nil {
			r = 0
		}
		return Val{K: KInt, T: e.intLit(big.NewInt(int64(r)), types.Typ[types.UntypedRune]), GoT: types.Typ[types.UntypedRune]}
	case token.STRING:
		s, _ := strconv.Unquote(x.Value)
		return Val{K: KStr, T: e.strLit(s), GoT: types.Typ[types.String]}
	}
	return e.unknownExpr(x, c, "literal")
}

func isPkgLevel(v *types.Var) bool {
	return v.Pkg() != nil && v.Parent() == v.Pkg().Scope()
}

func (e *Eng) evalIdent(x *ast.Ident, c *ctx) Val {
	switch x.Name {
	case "nil":
		if c.spec || e.info.ObjectOf(x) == types.Universe.Lookup("nil") {
			return Val{K: KRef, T: "0", GoT: types.Typ[types.UntypedNil]}
		}
	case "true", "false":
		if c.spec {
			return Val{K: KBool, T: x.Name, GoT: types.Typ[types.Bool]}
		}
	}
	if c.spec {
		if v, ok := c.bound[x.Name]; ok {
			return v
		}
		if v, ok := c.env[x.Name]; ok {
			return v
		}
		if v, ok := c.st.ghost[x.Name]; ok {
			return v
		}
		obj := e.lookupName(x.Name, c)
		if obj == nil {
			panic(fmt.Sprintf("spec: unknown name %q", x.Name))
		}
		return e.evalObject(obj, x.Name, c)
	}
	obj := e.info.ObjectOf(x)
	if obj == nil {
		return e.unknownExpr(x, c, "ident:"+x.Name)
	}
	return e.evalObject(obj, x.Name, c)
}

func (e *Eng) lookupName(name string, c *ctx) types.Object {
	pkg := c.pkg
	if pkg == nil {
		pkg = e.pkg
	}
	if c.scopePos.IsValid() {
		if sc := pkg.Types.Scope().Innermost(c.scopePos); sc != nil {
			if _, obj := sc.LookupParent(name, c.scopePos); obj != nil {
				return obj
			}
		}
	}
	if obj := pkg.Types.Scope().Lookup(name); obj != nil {
		return obj
	}
	// imported package by name (file scopes are not searched by Lookup)
	if p := e.u.importByName(pkg, name); p != nil {
		return types.NewPkgName(token.NoPos, pkg.Types, name, p)
	}
	return types.Universe.Lookup(name)
}

func (e *Eng) evalObject(obj types.Object, name string, c *ctx) Val {
	switch o := obj.(type) {
	case *types.Var:
		if e.escaped[o] {
			// the address of this scalar variable was taken: it may have been
			// written through the pointer, so every read is unconstrained
			return e.symFor(name+".escaped", o.Type(), c.st)
		}
		if v, ok := c.st.vars[o]; ok {
			return v
		}
		if isPkgLevel(o) {
			return e.loadGlobal(c.st, o)
		}
		// local not yet known (declared in abstracted code): fresh
		v := e.symFor(name, o.Type(), c.st)
		c.st.vars[o] = v
		return v
	case *types.Const:
		tv := types.TypeAndValue{Type: o.Type(), Value: o.Val()}
		if v, ok := e.constToVal(tv, c.st); ok {
			return v
		}
	case *types.Func:
		return Val{K: KRef, T: e.funcRef(o), GoT: o.Type(), Bound: &boundMethod{fn: o}}
	case *types.Nil:
		return Val{K: KRef, T: "0", GoT: types.Typ[types.UntypedNil]}
	}
	e.abstract("object:"+name, token.NoPos)
	return e.symFor(name, obj.Type(), c.st)
}

func (e *Eng) funcRef(f *types.Func) string {
	n := "|fn:" + f.FullName() + "|"
	e.declOnce(fmt.Sprintf("(declare-const %s Int)", n))
	e.declOnce(fmt.Sprintf("(assert (> %s 0))", n))
	return n
}

// ---- globals ----

func (e *Eng) globalCell(o *types.Var) string {
	if e.gcells == nil {
		e.gcells = map[string]int{}
	}
	k := e.globalBase(o)
	if n, ok := e.gcells[k]; ok {
		return fmt.Sprint(n)
	}
	n := 1000000 + len(e.gcells)
	e.gcells[k] = n
	return fmt.Sprint(n)
}

func (e *Eng) loadGlobal(st *State, o *types.Var) Val {
	if o.Pkg() != nil && !e.u.isRepoPkg(o.Pkg().Path()) && types.Identical(o.Type(), types.Universe.Lookup("error").Type()) {
		// exported error sentinels of dependencies (io.EOF, fs.ErrNotExist, ...)
		// are treated as non-nil constants
		n := "|sentinel:" + o.Pkg().Path() + "." + o.Name() + "|"
		e.declOnce(fmt.Sprintf("(declare-const %s Int)", n))
		e.declOnce(fmt.Sprintf("(assert (> %s 0))", n))
		e.noteAssumed("error sentinel " + o.Pkg().Path() + "." + o.Name() + " is a non-nil constant, never reassigned")
		return Val{K: KRef, T: n, GoT: o.Type()}
	}
	switch o.Type().Underlying().(type) {
	case *types.Struct, *types.Array:
		return Val{K: KRef, T: e.globalCell(o), GoT: o.Type()}
	}
	return e.loadLoc(st, e.globalBase(o), nil, o.Type())
}

func (e *Eng) storeGlobal(st *State, o *types.Var, v Val) {
	switch u := o.Type().Underlying().(type) {
	case *types.Struct:
		cell := e.globalCell(o)
		for i := 0; i < u.NumFields(); i++ {
			f := u.Field(i)
			base := e.fieldBase(f, ownerName(o.Type()))
			e.storeLoc(st, base, []string{cell}, e.loadLoc(st, base, []string{v.T}, f.Type()))
		}
		return
	case *types.Array:
		cell := e.globalCell(o)
		for _, cmp := range e.comps(u.Elem()) {
			key := e.elemBase(u.Elem()) + cmp
			h := e.heapGet(st, key)
			e.heapSet(st, key, "(store "+h+" "+cell+" (select "+h+" "+v.T+"))")
		}
		return
	}
	e.storeLoc(st, e.globalBase(o), nil, v)
}

// ---- selectors ----

func (e *Eng) evalSelector(x *ast.SelectorExpr, c *ctx) Val {
	if c.spec {
		// package-qualified?
		if id, ok := x.X.(*ast.Ident); ok {
			if _, isBound := c.bound[id.Name]; !isBound {
				if _, isEnv := c.env[id.Name]; !isEnv {
					if _, isGhost := c.st.ghost[id.Name]; !isGhost {
						if pn, ok := e.lookupName(id.Name, c).(*types.PkgName); ok {
							obj := pn.Imported().Scope().Lookup(x.Sel.Name)
							if obj == nil {
								panic(fmt.Sprintf("spec: %s.%s not found", id.Name, x.Sel.Name))
							}
							return e.evalObject(obj, x.Sel.Name, c)
						}
					}
				}
			}
		}
		base := e.eval(x.X, c)
		return e.fieldByName(base, x.Sel.Name, c, x)
	}
	if sel, ok := e.info.Selections[x]; ok {
		switch sel.Kind() {
		case types.FieldVal:
			base := e.eval(x.X, c)
			return e.walkFields(base, sel.Recv(), sel.Index(), c, x)
		case types.MethodVal:
			recv := e.eval(x.X, c)
			fn := sel.Obj().(*types.Func)
			return Val{K: KRef, T: e.newSym("mval", "Int"), GoT: sel.Type(), Bound: &boundMethod{fn: fn, recv: &recv}}
		case types.MethodExpr:
			fn := sel.Obj().(*types.Func)
			return Val{K: KRef, T: e.funcRef(fn), GoT: sel.Type(), Bound: &boundMethod{fn: fn}}
		}
	}
	// qualified identifier
	if obj := e.info.Uses[x.Sel]; obj != nil {
		return e.evalObject(obj, x.Sel.Name, c)
	}
	return e.unknownExpr(x, c, "selector")
}

func derefType(t types.Type) types.Type {
	if p, ok := t.Underlying().(*types.Pointer); ok {
		return p.Elem()
	}
	return t
}

func (e *Eng) walkFields(base Val, recvT types.Type, index []int, c *ctx, n ast.Node) Val {
	cur := base
	t := recvT
	for _, i := range index {
		isPtr := false
		if _, ok := t.Underlying().(*types.Pointer); ok {
			isPtr = true
		}
		st, ok := derefType(t).Underlying().(*types.Struct)
		if !ok {
			return e.unknownExpr(n.(ast.Expr), c, "field-walk")
		}
		if isPtr {
			e.safety("nil", n, c, "(not (= "+cur.T+" 0))")
		}
		f := st.Field(i)
		cur = e.loadLoc(c.st, e.fieldBase(f, ownerName(t)), []string{cur.T}, f.Type())
		t = f.Type()
	}
	return cur
}

func (e *Eng) fieldByName(base Val, name string, c *ctx, n ast.Node) Val {
	if base.GoT == nil {
		panic(fmt.Sprintf("spec: field %s of untyped value", name))
	}
	obj, index, _ := types.LookupFieldOrMethod(base.GoT, true, e.pkg.Types, name)
	if obj == nil && c.pkg != nil {
		obj, index, _ = types.LookupFieldOrMethod(base.GoT, true, c.pkg.Types, name)
	}
	if obj == nil {
		// try unexported lookup in the type's own package
		if nt, ok := types.Unalias(derefType(base.GoT)).(*types.Named); ok && nt.Obj().Pkg() != nil {
			obj, index, _ = types.LookupFieldOrMethod(base.GoT, true, nt.Obj().Pkg(), name)
		}
	}
	switch o := obj.(type) {
	case *types.Var:
		return e.walkFields(base, base.GoT, index, c, n)
	case *types.Func:
		b := base
		return Val{K: KRef, T: e.newSym("mval", "Int"), GoT: o.Type(), Bound: &boundMethod{fn: o, recv: &b}}
	}
	panic(fmt.Sprintf("spec: no field or method %s on %v", name, base.GoT))
}

func (e *Eng) deref(p Val, n ast.Node, c *ctx) Val {
	if p.GoT == nil {
		return p
	}
	pt, ok := p.GoT.Underlying().(*types.Pointer)
	if !ok {
		return p
	}
	e.safety("nil", n, c, "(not (= "+p.T+" 0))")
	switch pt.Elem().Underlying().(type) {
	case *types.Struct, *types.Array:
		return Val{K: KRef, T: p.T, GoT: pt.Elem()}
	}
	return e.loadLoc(c.st, "P:"+e.elemTag(pt.Elem()), []string{p.T}, pt.Elem())
}

// ---- unary / binary ----

func (e *Eng) evalUnary(x *ast.UnaryExpr, c *ctx) Val {
	switch x.Op {
	case token.AND:
		// address-of
		if cl, ok := ast.Unparen(x.X).(*ast.CompositeLit); ok {
			v := e.eval(cl, c)
			v.GoT = types.NewPointer(v.GoT)
			return v
		}
		v := e.eval(x.X, c)
		if v.K == KRef && v.GoT != nil {
			switch v.GoT.Underlying().(type) {
			case *types.Struct, *types.Array:
				return Val{K: KRef, T: v.T, GoT: types.NewPointer(v.GoT)}
			}
		}
		// address of a scalar: model as escaping
		if id, ok := ast.Unparen(x.X).(*ast.Ident); ok && !c.spec {
			if o, ok := e.info.ObjectOf(id).(*types.Var); ok {
				return e.addrOfVar(o, c)
			}
		}
		return e.unknownExpr(x, c, "address-of")
	case token.NOT:
		v := e.eval(x.X, c)
		return Val{K: KBool, T: smtNot(v.T), GoT: v.GoT}
	case token.SUB:
		v := e.eval(x.X, c)
		if e.bv {
			return Val{K: KInt, T: "(bvneg " + v.T + ")", GoT: v.GoT}
		}
		r := "(- " + v.T + ")"
		return e.arithResult(r, v.GoT, c, x)
	case token.ADD:
		return e.eval(x.X, c)
	case token.XOR:
		v := e.eval(x.X, c)
		if e.bv {
			return Val{K: KInt, T: "(bvnot " + v.T + ")", GoT: v.GoT}
		}
		bits, signed := intInfo(v.GoT)
		if signed {
			return Val{K: KInt, T: "(- (- " + v.T + ") 1)", GoT: v.GoT}
		}
		return Val{K: KInt, T: "(- " + new(big.Int).Sub(new(big.Int).Lsh(big.NewInt(1), uint(bits)), big.NewInt(1)).String() + " " + v.T + ")", GoT: v.GoT}
	case token.ARROW:
		return e.unknownExpr(x, c, "chan-recv")
	}
	return e.unknownExpr(x, c, "unary")
}

// addrOfVar boxes a scalar variable whose address is taken.
func (e *Eng) addrOfVar(o *types.Var, c *ctx) Val {
	e.abstract("address-of-scalar:"+o.Name(), token.NoPos)
	r := e.alloc(c.st, "box")
	// the variable's current value is stored in the box; later direct reads of
	// the variable are not redirected (unsound for writes through the pointer),
	// so the variable is marked escaped: reads yield fresh values.
	if e.escaped == nil {
		e.escaped = map[types.Object]bool{}
	}
	e.escaped[o] = true
	return Val{K: KRef, T: r, GoT: types.NewPointer(o.Type())}
}

func smtNot(t string) string {
	if t == "true" {
		return "false"
	}
	if t == "false" {
		return "true"
	}
	if strings.HasPrefix(t, "(not ") && strings.HasSuffix(t, ")") && balanced(t[5:len(t)-1]) {
		return t[5 : len(t)-1]
	}
	return "(not " + t + ")"
}

func balanced(s string) bool {
	d := 0
	for i, r := range s {
		switch r {
		case '(':
			d++
		case ')':
			d--
			if d < 0 {
				return false
			}
			if d == 0 && i != len(s)-1 {
				// closed before the end: only balanced as a whole if it started with '('
				if s[0] == '(' {
					return false
				}
			}
		case ' ':
			if d == 0 {
				return false
			}
		}
	}
	return d == 0
}

func smtAnd(a, b string) string {
	if a == "true" {
		return b
	}
	if b == "true" {
		return a
	}
	if a == "false" || b == "false" {
		return "false"
	}
	return "(and " + a + " " + b + ")"
}

func smtOr(a, b string) string {
	if a == "false" {
		return b
	}
	if b == "false" {
		return a
	}
	if a == "true" || b == "true" {
		return "true"
	}
	return "(or " + a + " " + b + ")"
}

// unify gives untyped constant operands the type of the other operand.
func (e *Eng) unify(a, b Val) (Val, Val, types.Type) {
	ta, tb := a.GoT, b.GoT
	ua := ta == nil || e.isUntypedConstType(ta)
	ub := tb == nil || e.isUntypedConstType(tb)
	switch {
	case ua && !ub:
		return e.retype(a, tb), b, tb
	case ub && !ua:
		return a, e.retype(b, ta), ta
	case ua && ub:
		t := ta
		if t == nil {
			t = tb
		}
		if t == nil || t == types.Typ[types.UntypedRune] {
			t = types.Typ[types.UntypedInt]
		}
		return a, b, t
	}
	return a, b, ta
}

// retype reinterprets an untyped constant at type t (bv mode needs the width).
func (e *Eng) retype(v Val, t types.Type) Val {
	if v.K == KInt && e.bv {
		// literal terms look like (_ bvN W)
		if strings.HasPrefix(v.T, "(_ bv") {
			f := strings.Fields(strings.Trim(v.T, "()"))
			if n, ok := new(big.Int).SetString(f[1][2:], 10); ok {
				ob, _ := strconv.Atoi(f[2])
				// sign-reconstruct from original width
				if _, signed := intInfo(v.GoT); signed {
					half := new(big.Int).Lsh(big.NewInt(1), uint(ob-1))
					if n.Cmp(half) >= 0 {
						n.Sub(n, new(big.Int).Lsh(big.NewInt(1), uint(ob)))
					}
				}
				v.T = e.intLit(n, t)
			}
		}
	}
	v.GoT = t
	return v
}

func (e *Eng) evalBinary(x *ast.BinaryExpr, c *ctx) Val {
	switch x.Op {
	case token.LAND, token.LOR:
		a := e.eval(x.X, c)
		guard := a.T
		if x.Op == token.LOR {
			guard = smtNot(a.T)
		}
		// evaluate the right operand under the guard so that its obligations and
		// effects are conditional
		nBase := len(c.st.pc)
		sub := c.st.clone()
		sub.assume(guard)
		b := e.eval(x.Y, c.with(sub))
		if c.spec {
			// contract expressions have no effects: only remember which initial heap
			// symbols were introduced while evaluating the right operand
			for k, v := range sub.heap {
				if _, ok := c.st.heap[k]; !ok {
					c.st.heap[k] = v
				}
			}
		} else if len(sub.heap) != len(c.st.heap) && !heapChanged(sub, c.st) && !ghostChanged(sub, c.st) {
			// only new (untouched) heap keys were looked at
			for k, v := range sub.heap {
				if _, ok := c.st.heap[k]; !ok {
					c.st.heap[k] = v
				}
			}
			for _, p := range sub.pc[nBase:] {
				if p != guard {
					c.st.pc = append(c.st.pc, "(=> "+guard+" "+p+")")
				}
			}
			for k, v := range sub.vars {
				if _, ok := c.st.vars[k]; !ok {
					c.st.vars[k] = v
				}
			}
			c.st.allocs = sub.allocs
			c.st.known = sub.known
			c.st.frontier = sub.frontier
		} else if len(sub.heap) != len(c.st.heap) || heapChanged(sub, c.st) || ghostChanged(sub, c.st) {
			other := c.st.clone()
			other.assume(smtNot(guard))
			m := mergeStates(guard, sub, other, nBase)
			*c.st = *m
		} else {
			// keep facts learned in the sub-evaluation, guarded
			for _, p := range sub.pc[nBase:] {
				if p != guard && !strings.Contains(p, "q.") && !strings.Contains(guard, "q.") {
					c.st.pc = append(c.st.pc, "(=> "+guard+" "+p+")")
				}
			}
			for k, v := range sub.vars {
				if _, ok := c.st.vars[k]; !ok {
					c.st.vars[k] = v
				}
			}
			c.st.allocs = sub.allocs
			c.st.known = sub.known
			c.st.frontier = sub.frontier
		}
		if x.Op == token.LAND {
			return Val{K: KBool, T: smtAnd(a.T, b.T), GoT: types.Typ[types.Bool]}
		}
		return Val{K: KBool, T: smtOr(a.T, b.T), GoT: types.Typ[types.Bool]}
	}
	a := e.eval(x.X, c)
	b := e.eval(x.Y, c)
	return e.binop(x.Op, a, b, c, x)
}

func heapChanged(a, b *State) bool {
	for k, v := range a.heap {
		if w, ok := b.heap[k]; ok && w != v {
			return true
		}
		if _, ok := b.heap[k]; !ok && v != heapInit(k, b.epoch) && v != primed(heapInit(k, b.epoch)) {
			return true // first touched and already modified
		}
	}
	return false
}

func ghostChanged(a, b *State) bool {
	for k, v := range a.ghost {
		w := b.ghost[k]
		if w.T != v.T || w.Len != v.Len || w.Ref != v.Ref {
			return true
		}
	}
	return false
}

func (e *Eng) arithResult(term string, t types.Type, c *ctx, n ast.Node) Val {
	if t == nil || e.isUntypedConstType(t) || c.spec {
		return Val{K: KInt, T: term, GoT: t}
	}
	bits, signed := intInfo(t)
	if signed && bits == 64 {
		e.safety("overflow", n, c, e.inRange(term, t))
		return Val{K: KInt, T: term, GoT: t}
	}
	return Val{K: KInt, T: e.wrap(term, t), GoT: t}
}

func (e *Eng) boxScalar(v Val) Val {
	switch v.K {
	case KStr:
		e.declOnce("(declare-fun box.str (Str) Int)")
		e.declOnce("(declare-fun unbox.str (Int) Str)")
		e.declOnce("(assert (forall ((s Str)) (! (and (= (unbox.str (box.str s)) s) (> (box.str s) 0)) :pattern ((box.str s)))))")
		return Val{K: KRef, T: "(box.str " + v.T + ")", GoT: v.GoT}
	case KBool:
		e.declOnce("(declare-fun box.bool (Bool) Int)")
		e.declOnce("(assert (and (> (box.bool true) 0) (> (box.bool false) 0)))")
		return Val{K: KRef, T: "(box.bool " + v.T + ")", GoT: v.GoT}
	}
	return v
}

func (e *Eng) binop(op token.Token, a, b Val, c *ctx, n ast.Node) Val {
	boolT := types.Typ[types.Bool]
	// nil comparisons with slices
	if op == token.EQL || op == token.NEQ {
		var t string
		switch {
		case a.K == KSlice && b.K != KSlice:
			t = "(= " + a.Ref + " 0)"
		case b.K == KSlice && a.K != KSlice:
			t = "(= " + b.Ref + " 0)"
		case a.K == KSlice && b.K == KSlice:
			t = "(and (= " + a.Ref + " " + b.Ref + ") (= " + a.Off + " " + b.Off + ") (= " + a.Len + " " + b.Len + "))"
		default:
			// interface compared with a concrete scalar: box the scalar
			if a.K == KRef && (b.K == KStr || b.K == KBool) {
				b = e.boxScalar(b)
			} else if b.K == KRef && (a.K == KStr || a.K == KBool) {
				a = e.boxScalar(a)
			}
			if a.K == KInt || b.K == KInt {
				a, b, _ = e.unify(a, b)
			}
			if a.K == KRef && b.K == KRef && a.GoT != nil && b.GoT != nil {
				// struct value comparison: field-wise
				if st, ok := a.GoT.Underlying().(*types.Struct); ok {
					parts := []string{}
					for i := 0; i < st.NumFields(); i++ {
						f := st.Field(i)
						base := e.fieldBase(f, ownerName(a.GoT))
						fa := e.loadLoc(c.st, base, []string{a.T}, f.Type())
						fb := e.loadLoc(c.st, base, []string{b.T}, f.Type())
						parts = append(parts, e.binop(token.EQL, fa, fb, c, n).T)
					}
					t = "(and true " + strings.Join(parts, " ") + ")"
					break
				}
			}
			t = "(= " + a.T + " " + b.T + ")"
		}
		if op == token.NEQ {
			t = smtNot(t)
		}
		return Val{K: KBool, T: t, GoT: boolT}
	}
	switch a.K {
	case KBool:
		switch op {
		case token.LAND:
			return Val{K: KBool, T: smtAnd(a.T, b.T), GoT: boolT}
		case token.LOR:
			return Val{K: KBool, T: smtOr(a.T, b.T), GoT: boolT}
		}
	case KStr:
		switch op {
		case token.ADD:
			return Val{K: KStr, T: "(scat " + a.T + " " + b.T + ")", GoT: a.GoT}
		case token.LSS:
			return Val{K: KBool, T: "(slt " + a.T + " " + b.T + ")", GoT: boolT}
		case token.GTR:
			return Val{K: KBool, T: "(slt " + b.T + " " + a.T + ")", GoT: boolT}
		case token.LEQ:
			return Val{K: KBool, T: "(not (slt " + b.T + " " + a.T + "))", GoT: boolT}
		case token.GEQ:
			return Val{K: KBool, T: "(not (slt " + a.T + " " + b.T + "))", GoT: boolT}
		}
	case KInt:
		if op == token.SHL || op == token.SHR {
			return e.shift(op, a, b, c, n)
		}
		var t types.Type
		a, b, t = e.unify(a, b)
		if e.bv {
			return e.binopBV(op, a, b, t, c, n)
		}
		_, signed := intInfo(t)
		switch op {
		case token.ADD:
			return e.arithResult("(+ "+a.T+" "+b.T+")", t, c, n)
		case token.SUB:
			return e.arithResult("(- "+a.T+" "+b.T+")", t, c, n)
		case token.MUL:
			return e.arithResult("(* "+a.T+" "+b.T+")", t, c, n)
		case token.QUO:
			e.safety("div", n, c, "(not (= "+b.T+" 0))")
			if signed {
				return Val{K: KInt, T: "(go_div " + a.T + " " + b.T + ")", GoT: t}
			}
			return Val{K: KInt, T: "(div " + a.T + " " + b.T + ")", GoT: t}
		case token.REM:
			e.safety("div", n, c, "(not (= "+b.T+" 0))")
			if signed {
				return Val{K: KInt, T: "(go_rem " + a.T + " " + b.T + ")", GoT: t}
			}
			return Val{K: KInt, T: "(mod " + a.T + " " + b.T + ")", GoT: t}
		case token.LSS:
			return Val{K: KBool, T: "(< " + a.T + " " + b.T + ")", GoT: boolT}
		case token.LEQ:
			return Val{K: KBool, T: "(<= " + a.T + " " + b.T + ")", GoT: boolT}
		case token.GTR:
			return Val{K: KBool, T: "(> " + a.T + " " + b.T + ")", GoT: boolT}
		case token.GEQ:
			return Val{K: KBool, T: "(>= " + a.T + " " + b.T + ")", GoT: boolT}
		case token.AND, token.OR, token.XOR, token.AND_NOT:
			return e.bitopInt(op, a, b, t, c, n)
		}
	}
	if ex, ok := n.(ast.Expr); ok {
		return e.unknownExpr(ex, c, "binop:"+op.String())
	}
	return Val{K: KRef, T: e.newSym("unk", "Int")}
}

// bitopInt handles bit operations in int mode: exact for masks with 2^k-1,
// otherwise an uninterpreted function with the obvious range facts.
func (e *Eng) bitopInt(op token.Token, a, b Val, t types.Type, c *ctx, n ast.Node) Val {
	if isLiteralTerm(a.T) && isLiteralTerm(b.T) {
		x, _ := new(big.Int).SetString(a.T, 10)
		y, _ := new(big.Int).SetString(b.T, 10)
		r := new(big.Int)
		switch op {
		case token.AND:
			r.And(x, y)
		case token.OR:
			r.Or(x, y)
		case token.XOR:
			r.Xor(x, y)
		case token.AND_NOT:
			r.AndNot(x, y)
		}
		return Val{K: KInt, T: r.String(), GoT: t}
	}
	if op == token.AND {
		for _, p := range [][2]Val{{a, b}, {b, a}} {
			if isLiteralTerm(p[1].T) {
				m, _ := new(big.Int).SetString(p[1].T, 10)
				m1 := new(big.Int).Add(m, big.NewInt(1))
				if m1.BitLen() > 0 && new(big.Int).And(m1, m).Sign() == 0 { // m+1 power of two
					return Val{K: KInt, T: "(mod " + p[0].T + " " + m1.String() + ")", GoT: t}
				}
			}
		}
	}
	bits, _ := intInfo(t)
	name := fmt.Sprintf("bit%s%d", map[token.Token]string{token.AND: "and", token.OR: "or", token.XOR: "xor", token.AND_NOT: "andnot"}[op], bits)
	e.declOnce(fmt.Sprintf("(declare-fun %s (Int Int) Int)", name))
	e.abstract("bitop-in-int-mode", n.Pos())
	v := Val{K: KInt, T: "(" + name + " " + a.T + " " + b.T + ")", GoT: t}
	e.typeFacts(c.st, v)
	return v
}

func (e *Eng) shift(op token.Token, a, b Val, c *ctx, n ast.Node) Val {
	t := a.GoT
	if t == nil || e.isUntypedConstType(t) {
		t = types.Typ[types.Int]
		a = e.retype(a, t)
	}
	if e.bv {
		bits, signed := intInfo(t)
		bb := e.convertInt(b, t, c)
		_ = bits
		switch {
		case op == token.SHL:
			return Val{K: KInt, T: "(bvshl " + a.T + " " + bb.T + ")", GoT: t}
		case signed:
			return Val{K: KInt, T: "(bvashr " + a.T + " " + bb.T + ")", GoT: t}
		default:
			return Val{K: KInt, T: "(bvlshr " + a.T + " " + bb.T + ")", GoT: t}
		}
	}
	if isLiteralTerm(b.T) {
		k, _ := strconv.Atoi(b.T)
		if k < 128 {
			if op == token.SHL {
				return Val{K: KInt, T: e.wrap("(* "+a.T+" "+pow2(k)+")", t), GoT: t}
			}
			return Val{K: KInt, T: "(div " + a.T + " " + pow2(k) + ")", GoT: t}
		}
	}
	e.declOnce("(declare-fun pow2 (Int) Int)")
	e.abstract("symbolic-shift-in-int-mode", n.Pos())
	if op == token.SHL {
		return Val{K: KInt, T: e.wrap("(* "+a.T+" (pow2 "+b.T+"))", t), GoT: t}
	}
	v := Val{K: KInt, T: e.newSym("shr", "Int"), GoT: t}
	e.typeFacts(c.st, v)
	return v
}

func (e *Eng) binopBV(op token.Token, a, b Val, t types.Type, c *ctx, n ast.Node) Val {
	_, signed := intInfo(t)
	boolT := types.Typ[types.Bool]
	bin := func(f string) Val { return Val{K: KInt, T: "(" + f + " " + a.T + " " + b.T + ")", GoT: t} }
	cmp := func(s, u string) Val {
		f := u
		if signed {
			f = s
		}
		return Val{K: KBool, T: "(" + f + " " + a.T + " " + b.T + ")", GoT: boolT}
	}
	switch op {
	case token.ADD:
		return bin("bvadd")
	case token.SUB:
		return bin("bvsub")
	case token.MUL:
		return bin("bvmul")
	case token.QUO:
		e.safety("div", n, c, "(not (= "+b.T+" "+e.intLit(big.NewInt(0), t)+"))")
		if signed {
			return bin("bvsdiv")
		}
		return bin("bvudiv")
	case token.REM:
		e.safety("div", n, c, "(not (= "+b.T+" "+e.intLit(big.NewInt(0), t)+"))")
		if signed {
			return bin("bvsrem")
		}
		return bin("bvurem")
	case token.AND:
		return bin("bvand")
	case token.OR:
		return bin("bvor")
	case token.XOR:
		return bin("bvxor")
	case token.AND_NOT:
		return Val{K: KInt, T: "(bvand " + a.T + " (bvnot " + b.T + "))", GoT: t}
	case token.LSS:
		return cmp("bvslt", "bvult")
	case token.LEQ:
		return cmp("bvsle", "bvule")
	case token.GTR:
		return cmp("bvsgt", "bvugt")
	case token.GEQ:
		return cmp("bvsge", "bvuge")
	}
	return e.unknownExpr(n.(ast.Expr), c, "bvop")
}

// convertInt converts an integer value to integer type t.
func (e *Eng) convertInt(v Val, t types.Type, c *ctx) Val {
	if v.GoT == nil || e.isUntypedConstType(v.GoT) {
		return e.retype(v, t)
	}
	fb, fs := intInfo(v.GoT)
	tb, ts := intInfo(t)
	if e.bv {
		switch {
		case fb == tb:
			return Val{K: KInt, T: v.T, GoT: t}
		case fb > tb:
			return Val{K: KInt, T: fmt.Sprintf("((_ extract %d 0) %s)", tb-1, v.T), GoT: t}
		case fs:
			return Val{K: KInt, T: fmt.Sprintf("((_ sign_extend %d) %s)", tb-fb, v.T), GoT: t}
		default:
			return Val{K: KInt, T: fmt.Sprintf("((_ zero_extend %d) %s)", tb-fb, v.T), GoT: t}
		}
	}
	// int mode: value preserved if the source range fits in the target range
	if (fs == ts && fb <= tb) || (!fs && ts && fb < tb) {
		return Val{K: KInt, T: v.T, GoT: t}
	}
	return Val{K: KInt, T: e.wrap(v.T, t), GoT: t}
}

// ---- index / slice ----

func (e *Eng) idxTerm(v Val, c *ctx) string {
	// index values are converted to the index sort
	if e.bv {
		return e.convertInt(v, types.Typ[types.Int], c).T
	}
	return v.T
}

func (e *Eng) lt(a, b string) string {
	if e.bv {
		return "(bvslt " + a + " " + b + ")"
	}
	return "(< " + a + " " + b + ")"
}
func (e *Eng) le(a, b string) string {
	if e.bv {
		return "(bvsle " + a + " " + b + ")"
	}
	return "(<= " + a + " " + b + ")"
}
func (e *Eng) add(a, b string) string {
	if e.bv {
		return "(bvadd " + a + " " + b + ")"
	}
	if a == "0" {
		return b
	}
	if b == "0" {
		return a
	}
	return "(+ " + a + " " + b + ")"
}
func (e *Eng) sub(a, b string) string {
	if e.bv {
		return "(bvsub " + a + " " + b + ")"
	}
	if b == "0" {
		return a
	}
	return "(- " + a + " " + b + ")"
}

func (e *Eng) inBounds(i, n string) string {
	return "(and " + e.le(e.idxLit(0), i) + " " + e.lt(i, n) + ")"
}

func (e *Eng) evalIndex(x *ast.IndexExpr, c *ctx) Val {
	// generic function instantiation
	if !c.spec {
		if _, ok := e.info.Instances[identOf(x.X)]; ok {
			return e.eval(x.X, c)
		}
		if tv, ok := e.info.Types[x.X]; ok && tv.IsType() {
			return e.unknownExpr(x, c, "type-index")
		}
		// read-only package-level table?
		if tbl := e.tableOf(x.X); tbl != nil {
			k := e.eval(x.Index, c)
			return e.tableLookup(tbl, k, c, e.isCommaOk(x))
		}
	} else if id, ok := x.X.(*ast.Ident); ok {
		if o, ok := e.lookupNameSafe(id.Name, c).(*types.Var); ok && isPkgLevel(o) {
			if tbl := e.tableOfVar(o); tbl != nil {
				k := e.eval(x.Index, c)
				return e.tableLookup(tbl, k, c, false)
			}
		}
	}
	base := e.eval(x.X, c)
	idx := e.eval(x.Index, c)
	return e.indexVal(base, idx, c, x, !c.spec && e.isCommaOk(x))
}

func (e *Eng) lookupNameSafe(name string, c *ctx) (obj types.Object) {
	if _, ok := c.bound[name]; ok {
		return nil
	}
	if _, ok := c.env[name]; ok {
		return nil
	}
	if _, ok := c.st.ghost[name]; ok {
		return nil
	}
	return e.lookupName(name, c)
}

func identOf(x ast.Expr) *ast.Ident {
	switch x := x.(type) {
	case *ast.Ident:
		return x
	case *ast.SelectorExpr:
		return x.Sel
	}
	return nil
}

func (e *Eng) isCommaOk(x ast.Expr) bool {
	if tv, ok := e.info.Types[x]; ok {
		if tup, ok := tv.Type.(*types.Tuple); ok && tup.Len() == 2 {
			return true
		}
	}
	return false
}

func (e *Eng) indexVal(base, idx Val, c *ctx, n ast.Node, commaOk bool) Val {
	if base.K == KGMap {
		kt := idx.T
		if idx.K == KSlice {
			kt = idx.Ref
		}
		k := map[string]Kind{"Bool": KBool, "Str": KStr, "Int": KInt, "(_ BitVec 8)": KInt}[base.GVal]
		var gt types.Type
		if base.GVal == "(_ BitVec 8)" {
			return Val{K: KInt, T: "(select " + base.T + " " + kt + ")", GoT: types.Typ[types.Uint8]}
		}
		if base.GVal == "(_ BitVec 64)" {
			return Val{K: KInt, T: "(select " + base.T + " " + kt + ")", GoT: types.Typ[types.Int]}
		}
		switch k {
		case KBool:
			gt = types.Typ[types.Bool]
		case KStr:
			gt = types.Typ[types.String]
		case KInt:
			gt = types.Typ[types.UntypedInt]
		}
		return Val{K: k, T: "(select " + base.T + " " + kt + ")", GoT: gt}
	}
	if base.K == KStr {
		i := e.idxTerm(idx, c)
		e.safety("index", n, c, e.inBounds(i, "(slen "+base.T+")"))
		v := Val{K: KInt, T: "(sat " + base.T + " " + i + ")", GoT: types.Typ[types.Uint8]}
		e.typeFacts(c.st, v)
		return v
	}
	if base.K == KSlice {
		var et types.Type = types.Typ[types.Uint8]
		if base.GoT != nil {
			if s, ok := base.GoT.Underlying().(*types.Slice); ok {
				et = s.Elem()
			}
		}
		i := e.idxTerm(idx, c)
		e.safety("index", n, c, e.inBounds(i, base.Len))
		if base.Row != "" {
			v := Val{K: e.kindOf(et), T: "(select " + base.Row + " " + e.add(base.Off, i) + ")", GoT: et}
			e.typeFacts(c.st, v)
			return v
		}
		return e.loadLoc(c.st, e.elemBase(et), []string{base.Ref, e.add(base.Off, i)}, et)
	}
	if base.GoT != nil {
		switch u := derefType(base.GoT).Underlying().(type) {
		case *types.Array:
			i := e.idxTerm(idx, c)
			e.safety("index", n, c, e.inBounds(i, e.idxLit(u.Len())))
			return e.loadLoc(c.st, e.elemBase(u.Elem()), []string{base.T, i}, u.Elem())
		case *types.Map:
			return e.mapLoad(base, idx, u, c, commaOk)
		}
	}
	if ex, ok := n.(ast.Expr); ok {
		return e.unknownExpr(ex, c, "index")
	}
	return Val{K: KRef, T: e.newSym("unk", "Int")}
}

func (e *Eng) mapKeys(u *types.Map) (mkey, pkey string) {
	kt := e.elemTag(u.Key())
	return "M:" + kt + ":" + e.elemTag(u.Elem()), "MP:" + kt
}

func (e *Eng) mapLoad(m, k Val, u *types.Map, c *ctx, commaOk bool) Val {
	mkey, pkey := e.mapKeys(u)
	kt := k.T
	if k.K == KInt {
		kt = e.convertInt(k, u.Key(), c).T
	}
	present := "(select (select " + e.heapGet(c.st, pkey) + " " + m.T + ") " + kt + ")"
	present = "(and (not (= " + m.T + " 0)) " + present + ")"
	var v Val
	if e.kindOf(u.Elem()) == KSlice {
		v = e.loadLoc(c.st, mkey, []string{m.T, kt}, u.Elem())
		z := e.zeroVal(u.Elem(), c.st)
		v = iteVal(present, v, z)
	} else {
		v = e.loadLoc(c.st, mkey, []string{m.T, kt}, u.Elem())
		z := e.zeroValNoAlloc(u.Elem(), c.st)
		v.T = ite(present, v.T, z)
	}
	if commaOk {
		return Val{K: KTuple, Elts: []Val{v, {K: KBool, T: present, GoT: types.Typ[types.Bool]}}}
	}
	return v
}

func (e *Eng) zeroValNoAlloc(t types.Type, st *State) string {
	switch e.kindOf(t) {
	case KInt:
		return e.intLit(big.NewInt(0), t)
	case KBool:
		return "false"
	case KStr:
		return "str.empty"
	}
	return "0"
}

func (e *Eng) mapStore(m, k, v Val, u *types.Map, c *ctx, n ast.Node) {
	mkey, pkey := e.mapKeys(u)
	e.safety("nilmap", n, c, "(not (= "+m.T+" 0))")
	kt := k.T
	if k.K == KInt {
		kt = e.convertInt(k, u.Key(), c).T
	}
	e.storeLoc(c.st, mkey, []string{m.T, kt}, v)
	ph := e.heapGet(c.st, pkey)
	e.heapSet(c.st, pkey, nestStore(ph, []string{m.T, kt}, "true"))
}

func (e *Eng) evalSliceExpr(x *ast.SliceExpr, c *ctx) Val {
	base := e.eval(x.X, c)
	var lo, hi, mx *Val
	if x.Low != nil {
		v := e.eval(x.Low, c)
		lo = &v
	}
	if x.High != nil {
		v := e.eval(x.High, c)
		hi = &v
	}
	if x.Max != nil {
		v := e.eval(x.Max, c)
		mx = &v
	}
	return e.sliceVal(base, lo, hi, mx, c, x)
}

func (e *Eng) sliceVal(base Val, lo, hi, mx *Val, c *ctx, n ast.Node) Val {
	loT := e.idxLit(0)
	if lo != nil {
		loT = e.idxTerm(*lo, c)
	}
	if base.K == KStr {
		hiT := "(slen " + base.T + ")"
		if hi != nil {
			hiT = e.idxTerm(*hi, c)
		}
		e.safety("slice", n, c, "(and "+e.le(e.idxLit(0), loT)+" "+e.le(loT, hiT)+" "+e.le(hiT, "(slen "+base.T+")")+")")
		if lo == nil && hi == nil {
			return base
		}
		return Val{K: KStr, T: "(ssub " + base.T + " " + loT + " " + hiT + ")", GoT: base.GoT}
	}
	var ref, off, ln, cp string
	var rt types.Type
	switch {
	case base.K == KSlice:
		ref, off, ln, cp = base.Ref, base.Off, base.Len, base.Cap
		rt = base.GoT
	case base.GoT != nil:
		if a, ok := derefType(base.GoT).Underlying().(*types.Array); ok {
			ref, off, ln, cp = base.T, e.idxLit(0), e.idxLit(a.Len()), e.idxLit(a.Len())
			rt = types.NewSlice(a.Elem())
			break
		}
		fallthrough
	default:
		return e.unknownExpr(n.(ast.Expr), c, "slice-of")
	}
	hiT := ln
	if hi != nil {
		hiT = e.idxTerm(*hi, c)
	}
	mxT := cp
	if mx != nil {
		mxT = e.idxTerm(*mx, c)
	}
	e.safety("slice", n, c, "(and "+e.le(e.idxLit(0), loT)+" "+e.le(loT, hiT)+" "+e.le(hiT, mxT)+" "+e.le(mxT, cp)+")")
	return Val{K: KSlice, Ref: ref, Off: e.add(off, loT), Len: e.sub(hiT, loT), Cap: e.sub(mxT, loT), GoT: rt}
}

// ---- composite literals ----

func (e *Eng) evalCompositeLit(x *ast.CompositeLit, c *ctx) Val {
	t := e.typeOf(x, c)
	if t == nil {
		return e.unknownExpr(x, c, "complit")
	}
	switch u := t.Underlying().(type) {
	case *types.Struct:
		// Go evaluates the element expressions (and the calls in them) before the value is
		// built: a call among them cannot disturb fields listed earlier
		type fieldVal struct {
			f *types.Var
			v Val
		}
		var fvs []fieldVal
		for i, el := range x.Elts {
			var f *types.Var
			var val ast.Expr
			if kv, ok := el.(*ast.KeyValueExpr); ok {
				name := kv.Key.(*ast.Ident).Name
				for j := 0; j < u.NumFields(); j++ {
					if u.Field(j).Name() == name {
						f = u.Field(j)
					}
				}
				val = kv.Value
			} else {
				f = u.Field(i)
				val = el
			}
			if f == nil {
				continue
			}
			fvs = append(fvs, fieldVal{f, e.copyVal(c.st, e.coerce(e.evalElt(val, f.Type(), c), f.Type(), c))})
		}
		v := e.zeroVal(t, c.st)
		for _, fv := range fvs {
			e.storeLoc(c.st, e.fieldBase(fv.f, ownerName(t)), []string{v.T}, fv.v)
		}
		return v
	case *types.Slice, *types.Array:
		var et types.Type
		n := int64(0)
		if s, ok := u.(*types.Slice); ok {
			et = s.Elem()
		} else {
			et = u.(*types.Array).Elem()
		}
		idx := int64(0)
		type ent struct {
			i int64
			v Val
		}
		var ents []ent
		for _, el := range x.Elts {
			val := el
			if kv, ok := el.(*ast.KeyValueExpr); ok {
				if tv, ok := e.info.Types[kv.Key]; ok && tv.Value != nil {
					if k, ok := constant.Int64Val(tv.Value); ok {
						idx = k
					}
				}
				val = kv.Value
			}
			ents = append(ents, ent{idx, e.copyVal(c.st, e.coerce(e.evalElt(val, et, c), et, c))})
			idx++
			if idx > n {
				n = idx
			}
		}
		if a, ok := u.(*types.Array); ok {
			av := e.zeroVal(t, c.st)
			for _, en := range ents {
				e.storeLoc(c.st, e.elemBase(et), []string{av.T, e.idxLit(en.i)}, en.v)
			}
			_ = a
			return av
		}
		ref := e.alloc(c.st, "slicelit")
		for _, en := range ents {
			e.storeLoc(c.st, e.elemBase(et), []string{ref, e.idxLit(en.i)}, en.v)
		}
		return Val{K: KSlice, Ref: ref, Off: e.idxLit(0), Len: e.idxLit(n), Cap: e.idxLit(n), GoT: t}
	case *types.Map:
		m := Val{K: KRef, T: e.alloc(c.st, "maplit"), GoT: t}
		_, pkey := e.mapKeys(u)
		ph := e.heapGet(c.st, pkey)
		e.heapSet(c.st, pkey, "(store "+ph+" "+m.T+" ((as const (Array "+e.tagSort(e.elemTag(u.Key()))+" Bool)) false))")
		for _, el := range x.Elts {
			kv, ok := el.(*ast.KeyValueExpr)
			if !ok {
				continue
			}
			k := e.coerce(e.evalElt(kv.Key, u.Key(), c), u.Key(), c)
			v := e.coerce(e.evalElt(kv.Value, u.Elem(), c), u.Elem(), c)
			e.mapStore(m, k, v, u, c.with(c.st), x)
		}
		return m
	}
	return e.unknownExpr(x, c, "complit")
}

// evalElt evaluates a composite-literal element, which may be an elided literal.
func (e *Eng) evalElt(x ast.Expr, t types.Type, c *ctx) Val {
	return e.eval(x, c)
}

// coerce adapts a value to a static type: nil to nil slice, untyped constant to
// typed, value to interface.
func (e *Eng) coerce(v Val, t types.Type, c *ctx) Val {
	if t == nil {
		return v
	}
	k := e.kindOf(t)
	switch {
	case k == KSlice && v.K == KRef:
		z := e.idxLit(0)
		return Val{K: KSlice, Ref: v.T, Off: z, Len: z, Cap: z, GoT: t}
	case k == KInt && v.K == KInt:
		if v.GoT == nil || e.isUntypedConstType(v.GoT) {
			return e.retype(v, t)
		}
		return v
	case k == KRef && v.K != KRef && v.K != KUnit && v.K != KTuple:
		// boxing a non-reference into an interface: opaque box with unboxing UFs
		if _, ok := t.Underlying().(*types.Interface); ok {
			return e.box(v, t, c)
		}
	case k == KRef && v.K == KRef:
		if _, ok := t.Underlying().(*types.Interface); ok && v.GoT != nil {
			if _, isIface := v.GoT.Underlying().(*types.Interface); !isIface && v.GoT != types.Typ[types.UntypedNil] {
				// record the dynamic type of the boxed reference
				id := e.typeID(v.GoT)
				switch v.GoT.Underlying().(type) {
				case *types.Struct, *types.Array:
					c.st.assume(fmt.Sprintf("(= (dyntype %s) %d)", v.T, id))
				default:
					c.st.assume(fmt.Sprintf("(=> (not (= %s 0)) (= (dyntype %s) %d))", v.T, v.T, id))
				}
			}
		}
		if v.GoT == nil || v.GoT == types.Typ[types.UntypedNil] {
			v.GoT = t
		}
	}
	return v
}

func (e *Eng) box(v Val, t types.Type, c *ctx) Val {
	switch v.K {
	case KStr:
		e.declOnce("(declare-fun box.str (Str) Int)")
		e.declOnce("(declare-fun unbox.str (Int) Str)")
		e.declOnce("(assert (forall ((s Str)) (! (and (= (unbox.str (box.str s)) s) (> (box.str s) 0)) :pattern ((box.str s)))))")
		return Val{K: KRef, T: "(box.str " + v.T + ")", GoT: t}
	case KInt:
		if !e.bv {
			e.declOnce("(declare-fun box.int (Int) Int)")
			e.declOnce("(declare-fun unbox.int (Int) Int)")
			e.declOnce("(assert (forall ((s Int)) (! (and (= (unbox.int (box.int s)) s) (> (box.int s) 0)) :pattern ((box.int s)))))")
			return Val{K: KRef, T: "(box.int " + v.T + ")", GoT: t}
		}
	case KBool:
		e.declOnce("(declare-fun box.bool (Bool) Int)")
		e.declOnce("(assert (and (> (box.bool true) 0) (> (box.bool false) 0)))")
		return Val{K: KRef, T: "(box.bool " + v.T + ")", GoT: t}
	}
	return Val{K: KRef, T: e.newSym("box", "Int"), GoT: t}
}

// ---- dynamic types ----

func (e *Eng) typeID(t types.Type) int {
	if e.u.typeIDs == nil {
		e.u.typeIDs = map[string]int{}
	}
	s := types.TypeString(types.Unalias(t), nil)
	if id, ok := e.u.typeIDs[s]; ok {
		return id
	}
	id := len(e.u.typeIDs) + 1
	e.u.typeIDs[s] = id
	return id
}

func (e *Eng) dynTypeIs(v Val, t types.Type) string {
	e.declOnce("(declare-fun dyntype (Int) Int)")
	if _, ok := t.Underlying().(*types.Interface); ok {
		// interface target: holds iff non-nil and the dynamic type implements it (uninterpreted)
		e.declOnce("(declare-fun implements (Int Int) Bool)")
		return fmt.Sprintf("(and (not (= %s 0)) (implements (dyntype %s) %d))", v.T, v.T, e.typeID(t))
	}
	return fmt.Sprintf("(and (not (= %s 0)) (= (dyntype %s) %d))", v.T, v.T, e.typeID(t))
}

func (e *Eng) evalTypeAssert(x *ast.TypeAssertExpr, c *ctx, commaOk bool) Val {
	v := e.eval(x.X, c)
	if x.Type == nil {
		return v
	}
	var t types.Type
	if c.spec {
		t = e.resolveTypeExpr(x.Type, c)
		if t == nil {
			panic("spec: unknown type in assertion " + types.ExprString(x.Type))
		}
		return e.unboxAs(v, t, c)
	}
	t = e.info.TypeOf(x.Type)
	e.declOnce("(declare-fun dyntype (Int) Int)")
	ok := e.dynTypeIs(v, t)
	if !commaOk && !e.isCommaOk(x) {
		e.safety("typeassert", x, c, ok)
		return e.unboxAs(v, t, c)
	}
	r := e.unboxAs(v, t, c)
	z := e.zeroVal(t, c.st)
	return Val{K: KTuple, Elts: []Val{iteVal(ok, r, z), {K: KBool, T: ok, GoT: types.Typ[types.Bool]}}}
}

func (e *Eng) unboxAs(v Val, t types.Type, c *ctx) Val {
	switch e.kindOf(t) {
	case KRef:
		return Val{K: KRef, T: v.T, GoT: t}
	case KStr:
		e.declOnce("(declare-fun unbox.str (Int) Str)")
		return Val{K: KStr, T: "(unbox.str " + v.T + ")", GoT: t}
	case KInt:
		if !e.bv {
			e.declOnce("(declare-fun unbox.int (Int) Int)")
			r := Val{K: KInt, T: "(unbox.int " + v.T + ")", GoT: t}
			e.typeFacts(c.st, r)
			return r
		}
	}
	return e.symFor("unboxed", t, c.st)
}
