package main

import (
	"fmt"
	"go/ast"
	"go/constant"
	"go/token"
	"go/types"
	"os"
	"regexp/syntax"
	"sort"
	"strings"

	"golang.org/x/tools/go/packages"
)

// FrameResult is one obligation decided without an SMT solver: by the goframe
// effect pass (frame:*) or by a ground evaluation over the real tables (ground:*).
type FrameResult struct {
	Name    string
	OK      bool
	Detail  string
	Witness string
	Props   []string
	Backend string
}

var frameTrustedUsed = map[string]bool{}

func frameTrusted(prop string) []string { return sortStrings(frameTrustedUsed) }

func (u *Universe) frameObligations(prop string) []FrameResult {
	var out []FrameResult
	add := func(rs ...FrameResult) {
		for _, r := range rs {
			if prop == "" || hasProp(r.Props, prop) {
				out = append(out, r)
			}
		}
	}
	want := func(ps ...string) bool {
		if prop == "" {
			return true
		}
		for _, p := range ps {
			if p == prop {
				return true
			}
		}
		return false
	}
	if want("C20") {
		add(u.groundGoFlagTables()...)
		add(u.groundGarbleFlagRegexp())
	}
	if want("C16", "C12") {
		add(u.groundGlobalInit("nameBase64", "base64.URLEncoding.WithPadding(base64.NoPadding)", []string{"C16", "C12"}))
	}
	if want("C05", "C09") {
		add(u.groundNonEmptyGlobal("internal/literals", "Obfuscators", []string{"C05", "C09"}))
		add(u.groundNonEmptyGlobal("internal/literals", "CheapObfuscators", []string{"C05", "C09"}))
	}
	if want("C10") {
		add(u.frameTiny()...)
	}
	if want("C02", "C14") {
		add(u.groundGlobalStrings("garbleBuildFlags", []string{"-trimpath", "-buildvcs=false"}, []string{"toolexecCmd", "appendListedPackages"}, []string{"C02", "C14"}))
	}
	for _, v := range sortedKeys(u.cs.Stable) {
		add(u.groundStable(v, strings.Fields(u.cs.Stable[v])))
	}
	add(u.effectObligations(prop)...)
	for _, r := range u.frameCaseCalls(prop) {
		out = append(out, r)
	}
	for _, r := range u.frameAssigns(prop) {
		out = append(out, r)
	}
	for _, r := range u.frameMustReadAll(prop) {
		out = append(out, r)
	}
	sort.Slice(out, func(i, j int) bool { return out[i].Name < out[j].Name })
	return out
}

func (u *Universe) mainPkg() *packages.Package { return u.pkgs[garblePath] }

// ---- ground: the go command's flags versus garble's tables ----

type goFlag struct {
	name   string
	isBool bool
	where  string
}

var goFlagCache []goFlag
var goFlagErr error

// goCommandFlags extracts, from the cmd/go sources of the installed GOROOT, every
// flag registered for go build / go test / go run together with whether it is
// boolean: BoolVar/Bool, or Var/Func with a value type that has IsBoolFlag.
func (u *Universe) goCommandFlags() ([]goFlag, error) {
	if goFlagCache != nil || goFlagErr != nil {
		return goFlagCache, goFlagErr
	}
	cfg := &packages.Config{
		Mode: packages.NeedName | packages.NeedFiles | packages.NeedSyntax | packages.NeedTypes | packages.NeedTypesInfo | packages.NeedImports | packages.NeedDeps,
		Dir:  u.repo,
		Env:  append(os.Environ(), "GOFLAGS=-mod=mod", "GOPROXY=off", "GOSUMDB=off", "GOTOOLCHAIN=local"),
	}
	pkgs, err := packages.Load(cfg, "cmd/go/internal/work", "cmd/go/internal/base", "cmd/go/internal/test", "cmd/go/internal/run")
	if err != nil {
		goFlagErr = err
		return nil, err
	}
	seen := map[string]bool{}
	for _, p := range pkgs {
		if len(p.Errors) > 0 {
			goFlagErr = fmt.Errorf("%s: %v", p.PkgPath, p.Errors[0])
			return nil, goFlagErr
		}
		for _, f := range p.Syntax {
			ast.Inspect(f, func(n ast.Node) bool {
				call, ok := n.(*ast.CallExpr)
				if !ok {
					return true
				}
				sel, ok := call.Fun.(*ast.SelectorExpr)
				if !ok {
					return true
				}
				s, ok := p.TypesInfo.Selections[sel]
				if !ok {
					return true
				}
				fn, ok := s.Obj().(*types.Func)
				if !ok || fn.Pkg() == nil || fn.Pkg().Path() != "flag" {
					return true
				}
				if !strings.Contains(s.Recv().String(), "flag.FlagSet") || len(call.Args) < 2 {
					return true
				}
				var nameArg ast.Expr
				isBool := false
				switch fn.Name() {
				case "BoolVar":
					nameArg, isBool = call.Args[1], true
				case "Bool":
					nameArg, isBool = call.Args[0], true
				case "StringVar", "IntVar", "DurationVar", "Int64Var", "UintVar", "Float64Var", "TextVar":
					nameArg = call.Args[1]
				case "String", "Int", "Duration", "Int64", "Uint", "Float64":
					nameArg = call.Args[0]
				case "Func":
					nameArg = call.Args[0]
				case "BoolFunc":
					nameArg, isBool = call.Args[0], true
				case "Var":
					nameArg = call.Args[1]
					vt := p.TypesInfo.TypeOf(call.Args[0])
					if vt != nil {
						if m, _, _ := types.LookupFieldOrMethod(vt, true, p.Types, "IsBoolFlag"); m != nil {
							isBool = true
						}
					}
				default:
					return true
				}
				tv, ok := p.TypesInfo.Types[nameArg]
				if !ok || tv.Value == nil || tv.Value.Kind() != constant.String {
					return true
				}
				name := "-" + constant.StringVal(tv.Value)
				if strings.HasPrefix(name, "-test.") {
					return true
				}
				pos := p.Fset.Position(call.Pos())
				key := name + fmt.Sprint(isBool)
				if !seen[key] {
					seen[key] = true
					goFlagCache = append(goFlagCache, goFlag{name, isBool, fmt.Sprintf("%s:%d", pos.Filename, pos.Line)})
				}
				return true
			})
		}
	}
	sort.Slice(goFlagCache, func(i, j int) bool { return goFlagCache[i].name < goFlagCache[j].name })
	frameTrustedUsed["go command flag tables: extracted on this run from GOROOT/src/cmd/go/internal/{work,base,test,run} (calls on flag.FlagSet: BoolVar/Bool/BoolFunc and Var with IsBoolFlag are boolean)"] = true
	return goFlagCache, nil
}

// tableEntries evaluates a package-level map[string]bool composite literal.
func (u *Universe) tableEntries(name string) (map[string]bool, string, error) {
	p := u.mainPkg()
	obj, _ := p.Types.Scope().Lookup(name).(*types.Var)
	if obj == nil {
		return nil, "", fmt.Errorf("table %s not found", name)
	}
	for _, f := range p.Syntax {
		for _, d := range f.Decls {
			gd, ok := d.(*ast.GenDecl)
			if !ok {
				continue
			}
			for _, sp := range gd.Specs {
				vs, ok := sp.(*ast.ValueSpec)
				if !ok {
					continue
				}
				for i, id := range vs.Names {
					if p.TypesInfo.Defs[id] != obj || i >= len(vs.Values) {
						continue
					}
					lit, ok := vs.Values[i].(*ast.CompositeLit)
					if !ok {
						return nil, "", fmt.Errorf("table %s is not a composite literal", name)
					}
					m := map[string]bool{}
					for _, el := range lit.Elts {
						kv := el.(*ast.KeyValueExpr)
						k, v := p.TypesInfo.Types[kv.Key], p.TypesInfo.Types[kv.Value]
						if k.Value == nil || v.Value == nil {
							return nil, "", fmt.Errorf("table %s has a non-constant entry", name)
						}
						m[constant.StringVal(k.Value)] = constant.BoolVal(v.Value)
					}
					pos := u.fset.Position(vs.Pos())
					return m, fmt.Sprintf("%s:%d", pos.Filename, pos.Line), nil
				}
			}
		}
	}
	return nil, "", fmt.Errorf("table %s has no initialiser", name)
}

func (u *Universe) groundGoFlagTables() []FrameResult {
	props := []string{"C20"}
	fail := func(name, d string) []FrameResult {
		return []FrameResult{{Name: name, OK: false, Detail: d, Props: props, Backend: "ground"}}
	}
	flags, err := u.goCommandFlags()
	if err != nil {
		return fail("ground:table-booleanFlags", "cannot load cmd/go sources: "+err.Error())
	}
	boolTab, where, err := u.tableEntries("booleanFlags")
	if err != nil {
		return fail("ground:table-booleanFlags", err.Error())
	}
	var res []FrameResult
	// (1) every boolean go flag is in booleanFlags; (2) no non-boolean go flag is.
	goBool, goNonBool := map[string]bool{}, map[string]bool{}
	for _, f := range flags {
		if f.isBool {
			goBool[f.name] = true
		} else {
			goNonBool[f.name] = true
		}
	}
	var missing, wrong []string
	for n := range goBool {
		if goNonBool[n] {
			continue // registered both ways by different commands (-json for build vs test): ambiguous, skip
		}
		if !boolTab[n] {
			missing = append(missing, n)
		}
	}
	for n, v := range boolTab {
		if v && goNonBool[n] && !goBool[n] {
			wrong = append(wrong, n)
		}
		if !v {
			wrong = append(wrong, n+"(false entry)")
		}
	}
	sort.Strings(missing)
	sort.Strings(wrong)
	r := FrameResult{Name: "ground:table-booleanFlags", OK: len(missing) == 0 && len(wrong) == 0, Props: props, Backend: "ground",
		Detail: fmt.Sprintf("booleanFlags at %s: %d entries; go command: %d boolean flags, %d value flags; missing=%v wrongly-boolean=%v", where, len(boolTab), len(goBool), len(goNonBool), missing, wrong)}
	if !r.OK {
		if len(missing) > 0 {
			r.Witness = fmt.Sprintf("splitFlagsFromArgs([%q, \"./pkg\"]) takes ./pkg for the flag's value", missing[0])
		} else {
			r.Witness = fmt.Sprintf("splitFlagsFromArgs([%q, \"value\", \"./pkg\"]) treats the value as a package", wrong[0])
		}
	}
	res = append(res, r)
	// forwardBuildFlags
	fwd, where2, err := u.tableEntries("forwardBuildFlags")
	if err != nil {
		return append(res, fail("ground:table-forwardBuildFlags", err.Error())...)
	}
	// flags that garble sets itself or that must not reach the nested go list
	notForwarded := map[string]string{
		"-a": "nested listing must not rebuild", "-n": "dry run", "-x": "tracing", "-v": "verbosity",
		"-trimpath": "always set by garble", "-toolexec": "always set by garble", "-buildvcs": "always set by garble",
		"-json": "output format only", "-o": "output path, not a build input of packages",
		"-debug-actiongraph": "debug output", "-debug-runtime-trace": "debug output", "-debug-trace": "debug output",
	}
	buildFlags := u.goBuildFlagNames(flags)
	var notTrue, shouldBeFalse []string
	for _, n := range buildFlags {
		if _, skip := notForwarded[n]; skip {
			if fwd[n] {
				shouldBeFalse = append(shouldBeFalse, n)
			}
			continue
		}
		if !fwd[n] {
			notTrue = append(notTrue, n)
		}
	}
	sort.Strings(notTrue)
	r2 := FrameResult{Name: "ground:table-forwardBuildFlags", OK: len(notTrue) == 0 && len(shouldBeFalse) == 0, Props: props, Backend: "ground",
		Detail: fmt.Sprintf("forwardBuildFlags at %s: %d entries; %d go build flags; not-forwarded=%v forwarded-but-garble-sets-it=%v", where2, len(fwd), len(buildFlags), notTrue, shouldBeFalse)}
	if !r2.OK && len(notTrue) > 0 {
		r2.Witness = fmt.Sprintf("garble build %s=... lists packages without that flag", notTrue[0])
	}
	res = append(res, r2)
	return res
}

// goBuildFlagNames: flags registered in cmd/go/internal/work (AddBuildFlags,
// AddCoverFlags) and cmd/go/internal/base (AddBuildFlagsNX, AddChdirFlag, AddModCommonFlags).
func (u *Universe) goBuildFlagNames(flags []goFlag) []string {
	var out []string
	seen := map[string]bool{}
	for _, f := range flags {
		if (strings.Contains(f.where, "/internal/work/build.go") || strings.Contains(f.where, "/internal/base/flag.go")) && !seen[f.name] {
			if f.name == "-coverprofile" {
				continue // only registered for go test
			}
			seen[f.name] = true
			out = append(out, f.name)
		}
	}
	sort.Strings(out)
	return out
}

// groundGarbleFlagRegexp: rxGarbleFlag must recognise exactly garble's own
// flags, at the start of an argument.
func (u *Universe) groundGarbleFlagRegexp() FrameResult {
	r := FrameResult{Name: "ground:rxGarbleFlag-shape", Props: []string{"C20"}, Backend: "ground"}
	p := u.mainPkg()
	// flags registered on flagSet in init()
	var names []string
	var pattern string
	for _, f := range p.Syntax {
		ast.Inspect(f, func(n ast.Node) bool {
			switch n := n.(type) {
			case *ast.CallExpr:
				sel, ok := n.Fun.(*ast.SelectorExpr)
				if !ok {
					return true
				}
				if id, ok := sel.X.(*ast.Ident); ok && id.Name == "flagSet" {
					switch sel.Sel.Name {
					case "BoolVar", "StringVar", "Var", "IntVar":
						if tv, ok := p.TypesInfo.Types[n.Args[1]]; ok && tv.Value != nil {
							names = append(names, constant.StringVal(tv.Value))
						}
					}
				}
			case *ast.ValueSpec:
				for i, id := range n.Names {
					if id.Name == "rxGarbleFlag" && i < len(n.Values) {
						if call, ok := n.Values[i].(*ast.CallExpr); ok && len(call.Args) == 1 {
							if tv, ok := p.TypesInfo.Types[call.Args[0]]; ok && tv.Value != nil {
								pattern = constant.StringVal(tv.Value)
							}
						}
					}
				}
			}
			return true
		})
	}
	sort.Strings(names)
	if pattern == "" || len(names) == 0 {
		r.Detail = "rxGarbleFlag or the flagSet registrations were not found"
		return r
	}
	re, err := syntax.Parse(pattern, syntax.Perl)
	if err != nil {
		r.Detail = "pattern does not parse: " + err.Error()
		return r
	}
	re = re.Simplify()
	// decision by evaluation over the finite set that matters: the pattern must
	// match "-f" and "-f=v" (and "--f") for each garble flag f, and must not match a value that
	// merely contains such a text, nor other flags.
	prog, err := syntax.Compile(re)
	_ = prog
	if err != nil {
		r.Detail = err.Error()
		return r
	}
	anchored := strings.HasPrefix(pattern, "^")
	var bad []string
	match := func(s string) bool { return matchRegexp(pattern, s) }
	for _, n := range names {
		for _, form := range []string{"-" + n, "-" + n + "=x", "--" + n, "--" + n + "=x"} {
			if !match(form) {
				bad = append(bad, "does not reject "+form)
			}
		}
		for _, val := range []string{"app-" + n, "x-" + n + "=y", "-X=main.v=a-" + n, "-o=out-" + n, "./dir-" + n} {
			if match(val) {
				bad = append(bad, "rejects the value/argument "+val)
			}
		}
	}
	for _, other := range []string{"-race", "-tags", "-o", "-ldflags", "-debug-actiongraph", "-debug-trace=x", "-seedling", "-tinyfoo"} {
		if match(other) {
			bad = append(bad, "rejects the go flag "+other)
		}
	}
	r.OK = len(bad) == 0
	r.Detail = fmt.Sprintf("pattern %q, anchored=%v, garble flags %v: %s", pattern, anchored, names, strings.Join(bad, "; "))
	if !r.OK {
		r.Witness = bad[0]
	}
	return r
}

// groundGlobalInit: a package-level variable is initialised by the given
// expression text and never assigned anywhere in the package.
func (u *Universe) groundGlobalInit(name, wantInit string, props []string) FrameResult {
	r := FrameResult{Name: "ground:init-" + name, Props: props, Backend: "ground"}
	p := u.mainPkg()
	obj := p.Types.Scope().Lookup(name)
	if obj == nil {
		r.Detail = "variable not found"
		return r
	}
	var got string
	written := false
	for _, f := range p.Syntax {
		ast.Inspect(f, func(n ast.Node) bool {
			switch n := n.(type) {
			case *ast.ValueSpec:
				for i, id := range n.Names {
					if p.TypesInfo.Defs[id] == obj && i < len(n.Values) {
						got = types.ExprString(n.Values[i])
					}
				}
			case *ast.AssignStmt:
				for _, l := range n.Lhs {
					if id, ok := ast.Unparen(l).(*ast.Ident); ok && p.TypesInfo.ObjectOf(id) == obj {
						written = true
					}
				}
			case *ast.UnaryExpr:
				if n.Op == token.AND {
					if id, ok := ast.Unparen(n.X).(*ast.Ident); ok && p.TypesInfo.ObjectOf(id) == obj {
						written = true
					}
				}
			}
			return true
		})
	}
	r.OK = got == wantInit && !written
	r.Detail = fmt.Sprintf("%s = %s (expected %s), assigned elsewhere: %v", name, got, wantInit, written)
	return r
}

// groundStable: a package-level variable of package main is assigned nowhere, and its address is
// taken only inside init functions (where the flag set is told about it). The engine then keeps
// its value across calls whose effects are unknown.
func (u *Universe) groundStable(name string, props []string) FrameResult {
	r := FrameResult{Name: "ground:stable-" + name, Props: props, Backend: "ground"}
	p := u.mainPkg()
	obj := p.Types.Scope().Lookup(name)
	if obj == nil {
		r.Detail = "variable not found"
		return r
	}
	var bad []string
	for _, f := range p.Syntax {
		for _, d := range f.Decls {
			fd, ok := d.(*ast.FuncDecl)
			if !ok || fd.Body == nil {
				continue
			}
			inInit := fd.Recv == nil && fd.Name.Name == "init"
			ast.Inspect(fd.Body, func(n ast.Node) bool {
				is := func(x ast.Expr) bool {
					id, ok := ast.Unparen(x).(*ast.Ident)
					return ok && p.TypesInfo.ObjectOf(id) == obj
				}
				switch n := n.(type) {
				case *ast.AssignStmt:
					for _, l := range n.Lhs {
						if is(l) {
							bad = append(bad, "assigned in "+fd.Name.Name)
						}
					}
				case *ast.IncDecStmt:
					if is(n.X) {
						bad = append(bad, "assigned in "+fd.Name.Name)
					}
				case *ast.UnaryExpr:
					if n.Op == token.AND && is(n.X) && !inInit {
						bad = append(bad, "address taken in "+fd.Name.Name)
					}
				}
				return true
			})
		}
	}
	r.OK = len(bad) == 0
	r.Detail = fmt.Sprintf("%s is written only through the flag set registered in init: %v", name, bad)
	if !r.OK {
		r.Witness = bad[0]
	}
	return r
}
