package main

// FrameResult is one obligation decided by the goframe effect pass.
type FrameResult struct {
	Name    string
	OK      bool
	Detail  string
	Witness string
}

func (u *Universe) frameObligations(prop string) []FrameResult { return nil }

func frameTrusted(prop string) []string { return nil }
