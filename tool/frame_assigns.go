package main

import (
	"fmt"
	"go/ast"
	"go/token"
	"go/types"
	"sort"
	"strconv"
	"strings"
)

// frameAssigns checks every declared assigns clause against the writes the
// function body (and, transitively, its callees) can perform on memory that
// outlives the call: package-level variables, fields reached through pointers,
// elements of parameter slices.
func (u *Universe) frameAssigns(prop string) []FrameResult {
	var out []FrameResult
	for _, fi := range u.contractsFor(prop) {
		con := fi.Con
		if !con.HasAssign || con.Extern {
			continue
		}
		if con.NoBody {
			frameTrustedUsed["trusted frame of "+funcLabel(fi)+": assigns "+strings.Join(con.Assigns, ", ")+" ("+con.Reason+")"] = true
			continue
		}
		declared := map[string]bool{}
		star := false
		for _, it := range con.Assigns {
			if it == "*" {
				star = true
			}
			declared[it] = true
		}
		if star {
			continue
		}
		ws := u.writesOf(fi, map[*FuncInfo]bool{})
		names := u.paramNames(fi)
		found := map[string]bool{}
		for x := range ws {
			if strings.HasPrefix(x, "@p:") {
				parts := strings.SplitN(x, ":", 3)
				i, _ := strconv.Atoi(parts[1])
				pn := "?"
				if i < len(names) {
					pn = names[i]
				}
				if parts[2] == "elems" {
					x = "elems(" + pn + ")"
				} else {
					x = parts[2]
					if declared["fields("+pn+")"] || declared["pointee("+pn+")"] {
						continue
					}
				}
			}
			found[x] = true
		}
		var bad []string
		for _, x := range sortStrings(found) {
			if declared[x] {
				continue
			}
			if i := strings.Index(x, "."); i > 0 && declared[x[:i]] {
				continue // g.f is covered by declaring the global g
			}
			bad = append(bad, x)
		}
		sort.Strings(bad)
		r := FrameResult{Name: "frame:assigns/" + funcLabel(fi), Props: con.Props, Backend: "goframe", OK: len(bad) == 0,
			Detail: fmt.Sprintf("declared assigns %v; writes found %v; undeclared %v", con.Assigns, sortStrings(found), bad)}
		if !r.OK {
			r.Witness = "the function can modify " + bad[0] + ", which callers assume unchanged"
		}
		out = append(out, r)
	}
	return out
}

func (u *Universe) paramNames(fi *FuncInfo) []string {
	var out []string
	add := func(fl *ast.FieldList) {
		if fl == nil {
			return
		}
		for _, f := range fl.List {
			if len(f.Names) == 0 {
				out = append(out, "_")
			}
			for _, n := range f.Names {
				out = append(out, n.Name)
			}
		}
	}
	add(fi.Decl.Recv)
	add(fi.Decl.Type.Params)
	return out
}

type rootInfo struct {
	kind     string // global | param | local | unknown
	v        *types.Var
	idx      int  // parameter index
	indirect bool // a pointer, slice or map was followed
}

type writeScan struct {
	u      *Universe
	fi     *FuncInfo
	info   *types.Info
	params map[types.Object]int
	alias  map[types.Object]ast.Expr // local := expr rooted elsewhere (single assignment)
	w      map[string]bool
}

func (s *writeScan) root(x ast.Expr, depth int) rootInfo {
	if depth > 8 {
		return rootInfo{kind: "unknown", indirect: true}
	}
	switch x := ast.Unparen(x).(type) {
	case *ast.Ident:
		o := s.info.ObjectOf(x)
		v, ok := o.(*types.Var)
		if !ok {
			return rootInfo{kind: "unknown"}
		}
		if isPkgLevel(v) {
			return rootInfo{kind: "global", v: v}
		}
		if i, ok := s.params[o]; ok {
			return rootInfo{kind: "param", v: v, idx: i}
		}
		if a, ok := s.alias[o]; ok {
			r := s.root(a, depth+1)
			if r.kind == "global" || r.kind == "param" {
				return r
			}
		}
		return rootInfo{kind: "local", v: v}
	case *ast.SelectorExpr:
		if sel, ok := s.info.Selections[x]; ok && sel.Kind() == types.FieldVal {
			r := s.root(x.X, depth+1)
			if _, isPtr := s.info.TypeOf(x.X).Underlying().(*types.Pointer); isPtr || sel.Indirect() {
				r.indirect = true
			}
			return r
		}
		if v, ok := s.info.ObjectOf(x.Sel).(*types.Var); ok && isPkgLevel(v) {
			return rootInfo{kind: "global", v: v}
		}
		return rootInfo{kind: "unknown"}
	case *ast.IndexExpr:
		r := s.root(x.X, depth+1)
		switch s.info.TypeOf(x.X).Underlying().(type) {
		case *types.Slice, *types.Map, *types.Pointer:
			r.indirect = true
		}
		return r
	case *ast.StarExpr:
		r := s.root(x.X, depth+1)
		r.indirect = true
		return r
	case *ast.SliceExpr:
		r := s.root(x.X, depth+1)
		if _, isArr := s.info.TypeOf(x.X).Underlying().(*types.Array); !isArr {
			r.indirect = true
		}
		return r
	case *ast.UnaryExpr:
		if x.Op == token.AND {
			return s.root(x.X, depth+1)
		}
	case *ast.CallExpr:
		// conversions keep the root
		if tv, ok := s.info.Types[x.Fun]; ok && tv.IsType() && len(x.Args) == 1 {
			return s.root(x.Args[0], depth+1)
		}
	}
	return rootInfo{kind: "unknown", indirect: true}
}

// target describes the written location: a field family "T.f" when the write
// goes through a field, otherwise "".
func (s *writeScan) fieldFamily(lhs ast.Expr) string {
	lhs = ast.Unparen(lhs)
	switch l := lhs.(type) {
	case *ast.SelectorExpr:
		if sel, ok := s.info.Selections[l]; ok && sel.Kind() == types.FieldVal {
			on := ownerName(sel.Recv())
			if i := strings.Index(on, "."); i >= 0 {
				on = on[i+1:]
			}
			return on + "." + l.Sel.Name
		}
	case *ast.IndexExpr:
		return s.fieldFamily(l.X)
	case *ast.SliceExpr:
		return s.fieldFamily(l.X)
	case *ast.StarExpr:
		return s.fieldFamily(l.X)
	}
	return ""
}

func (s *writeScan) qual(v *types.Var) string {
	if v.Pkg() != nil && v.Pkg() != s.fi.Pkg.Types {
		return v.Pkg().Name() + "." + v.Name()
	}
	return v.Name()
}

// record notes a write to the location denoted by lhs (whole value when
// deep is false, its pointee / elements when deep is true).
func (s *writeScan) record(lhs ast.Expr, deep bool) {
	r := s.root(lhs, 0)
	indirect := r.indirect || deep
	fam := s.fieldFamily(lhs)
	switch r.kind {
	case "global":
		if fam != "" && indirect {
			s.w[fam] = true // through a global pointer: the field family
			s.w[s.qual(r.v)+"."+fam[strings.Index(fam, ".")+1:]] = true
			delete(s.w, fam)
			return
		}
		s.w[s.qual(r.v)] = true
	case "param":
		if !indirect {
			return // assigning the parameter variable itself is local
		}
		if fam != "" {
			s.w[fmt.Sprintf("@p:%d:%s", r.idx, fam)] = true
		} else {
			s.w[fmt.Sprintf("@p:%d:elems", r.idx)] = true
		}
	case "local":
		if !indirect || s.u.localOwns(s.fi, r.v) {
			return
		}
		if fam != "" {
			s.w[fam] = true
		} else {
			s.w["heap-via-"+r.v.Name()] = true
		}
	default:
		if fam != "" {
			s.w[fam] = true
		} else {
			s.w["heap:"+types.ExprString(lhs)] = true
		}
	}
}

// writesOf: non-local memory a function may write. Writes through parameter i
// are reported as "@p:i:<Type.field>" or "@p:i:elems".
func (u *Universe) writesOf(fi *FuncInfo, visiting map[*FuncInfo]bool) map[string]bool {
	if w, ok := u.writesCache[fi]; ok {
		return w
	}
	s := &writeScan{u: u, fi: fi, info: fi.Pkg.TypesInfo, params: map[types.Object]int{}, alias: map[types.Object]ast.Expr{}, w: map[string]bool{}}
	if visiting[fi] {
		return s.w
	}
	visiting[fi] = true
	defer delete(visiting, fi)
	n := 0
	collect := func(fl *ast.FieldList) {
		if fl == nil {
			return
		}
		for _, f := range fl.List {
			if len(f.Names) == 0 {
				n++
			}
			for _, id := range f.Names {
				if o := s.info.Defs[id]; o != nil {
					s.params[o] = n
				}
				n++
			}
		}
	}
	collect(fi.Decl.Recv)
	collect(fi.Decl.Type.Params)
	// single-assignment aliases
	count := map[types.Object]int{}
	ast.Inspect(fi.Decl.Body, func(nd ast.Node) bool {
		if as, ok := nd.(*ast.AssignStmt); ok && len(as.Lhs) == len(as.Rhs) {
			for i, l := range as.Lhs {
				if id, ok := ast.Unparen(l).(*ast.Ident); ok {
					if o := s.info.ObjectOf(id); o != nil {
						count[o]++
						s.alias[o] = as.Rhs[i]
					}
				}
			}
		}
		return true
	})
	for o, c := range count {
		if c != 1 {
			delete(s.alias, o)
		}
	}
	ast.Inspect(fi.Decl.Body, func(nd ast.Node) bool {
		switch nd := nd.(type) {
		case *ast.AssignStmt:
			for _, l := range nd.Lhs {
				if id, ok := ast.Unparen(l).(*ast.Ident); ok {
					if v, ok := s.info.ObjectOf(id).(*types.Var); ok && isPkgLevel(v) {
						s.w[s.qual(v)] = true
					}
					continue
				}
				s.record(l, false)
			}
		case *ast.IncDecStmt:
			if _, ok := ast.Unparen(nd.X).(*ast.Ident); !ok {
				s.record(nd.X, false)
			} else if v, ok := s.info.ObjectOf(nd.X.(*ast.Ident)).(*types.Var); ok && isPkgLevel(v) {
				s.w[s.qual(v)] = true
			}
		case *ast.CallExpr:
			s.call(nd, visiting)
		}
		return true
	})
	if u.writesCache == nil {
		u.writesCache = map[*FuncInfo]map[string]bool{}
	}
	u.writesCache[fi] = s.w
	return s.w
}

func (s *writeScan) call(n *ast.CallExpr, visiting map[*FuncInfo]bool) {
	info := s.info
	var fn *types.Func
	var recvT types.Type
	var args []ast.Expr
	switch f := ast.Unparen(n.Fun).(type) {
	case *ast.Ident:
		fn, _ = info.Uses[f].(*types.Func)
		if b, ok := info.Uses[f].(*types.Builtin); ok && len(n.Args) > 0 {
			switch b.Name() {
			case "delete", "clear", "copy":
				s.record(n.Args[0], true)
			case "append":
				// may write into spare capacity of the first argument's array
				if r := s.root(n.Args[0], 0); r.kind != "local" || !s.u.localOwns(s.fi, r.v) {
					if id, isNil := ast.Unparen(n.Args[0]).(*ast.Ident); !(isNil && id.Name == "nil") {
						s.record(n.Args[0], true)
					}
				}
			}
		}
		args = n.Args
	case *ast.SelectorExpr:
		if sel, ok := info.Selections[f]; ok {
			fn, _ = sel.Obj().(*types.Func)
			recvT = info.TypeOf(f.X)
			args = append([]ast.Expr{f.X}, n.Args...)
		} else {
			fn, _ = info.Uses[f.Sel].(*types.Func)
			args = n.Args
		}
	}
	if fn == nil {
		return
	}
	mapParam := func(x string, calleeName string) {
		// translate a callee write through its parameter i to the argument passed
		parts := strings.SplitN(x, ":", 3)
		i, _ := strconv.Atoi(parts[1])
		if i >= len(args) {
			s.w["heap-via-"+calleeName] = true
			return
		}
		r := s.root(args[i], 0)
		switch r.kind {
		case "local":
			if !r.indirect || s.u.localOwns(s.fi, r.v) {
				return
			}
		case "param":
			s.w[fmt.Sprintf("@p:%d:%s", r.idx, parts[2])] = true
			return
		case "global":
			if parts[2] == "elems" {
				s.w[s.qual(r.v)] = true
			} else {
				s.w[s.qual(r.v)+"."+parts[2][strings.Index(parts[2], ".")+1:]] = true
			}
			return
		}
		if parts[2] == "elems" {
			s.w["heap-via-"+calleeName] = true
		} else {
			s.w[parts[2]] = true
		}
	}
	if callee := s.u.byObj[fn.Origin()]; callee != nil {
		if callee.Con != nil && callee.Con.Pure {
			return
		}
		if callee.Con != nil && callee.Con.HasAssign {
			names := s.u.paramNames(callee)
			for _, it := range callee.Con.Assigns {
				switch {
				case it == "nothing" || strings.HasPrefix(it, "ghost "):
				case it == "*":
					s.w["*"] = true
				case strings.HasPrefix(it, "elems(") || strings.HasPrefix(it, "fields(") || strings.HasPrefix(it, "pointee("):
					pn := it[strings.Index(it, "(")+1 : len(it)-1]
					for i, nme := range names {
						if nme == pn {
							mapParam(fmt.Sprintf("@p:%d:elems", i), callee.Key)
						}
					}
				default:
					if callee.Pkg != s.fi.Pkg && !strings.Contains(it, ".") {
						it = callee.Pkg.Types.Name() + "." + it
					}
					s.w[it] = true
				}
			}
			return
		}
		for x := range s.u.writesOf(callee, visiting) {
			if strings.HasPrefix(x, "@p:") {
				mapParam(x, callee.Key)
			} else {
				if callee.Pkg != s.fi.Pkg && !strings.Contains(x, ".") && !strings.HasPrefix(x, "heap") {
					x = callee.Pkg.Types.Name() + "." + x
				}
				s.w[x] = true
			}
		}
		return
	}
	name := calleeName(fn, recvT)
	if con := s.u.cs.Externs[name]; con != nil {
		for _, wname := range con.Writes {
			for i, p := range con.Params {
				if p == wname && i < len(args) {
					s.record(args[i], true)
				}
			}
		}
	}
}

// localOwns: every assignment to the local variable gives it freshly made
// memory (make, new, composite literal, &T{}, append to itself).
func (u *Universe) localOwns(fi *FuncInfo, v *types.Var) bool {
	if v == nil {
		return false
	}
	info := fi.Pkg.TypesInfo
	owns := true
	fresh := func(x ast.Expr) bool {
		switch x := ast.Unparen(x).(type) {
		case *ast.CompositeLit:
			return true
		case *ast.UnaryExpr:
			_, ok := ast.Unparen(x.X).(*ast.CompositeLit)
			return x.Op == token.AND && ok
		case *ast.CallExpr:
			if id, ok := x.Fun.(*ast.Ident); ok {
				switch id.Name {
				case "make", "new":
					return true
				case "append":
					if a0, ok := ast.Unparen(x.Args[0]).(*ast.Ident); ok && (info.ObjectOf(a0) == v || a0.Name == "nil") {
						return true
					}
				}
			}
			if tv, ok := info.Types[x.Fun]; ok && tv.IsType() && len(x.Args) == 1 {
				if at := info.TypeOf(x.Args[0]); at != nil {
					if b, ok := at.Underlying().(*types.Basic); ok && b.Info()&types.IsString != 0 {
						return true // []byte(string) allocates
					}
				}
			}
		case *ast.Ident:
			return x.Name == "nil"
		}
		return false
	}
	ast.Inspect(fi.Decl.Body, func(n ast.Node) bool {
		switch n := n.(type) {
		case *ast.AssignStmt:
			for i, l := range n.Lhs {
				if id, ok := ast.Unparen(l).(*ast.Ident); ok && info.ObjectOf(id) == v {
					if len(n.Lhs) != len(n.Rhs) || !fresh(n.Rhs[i]) {
						owns = false
					}
				}
			}
		case *ast.ValueSpec:
			for i, id := range n.Names {
				if info.ObjectOf(id) == v && i < len(n.Values) && !fresh(n.Values[i]) {
					owns = false
				}
			}
		case *ast.RangeStmt:
			for _, x := range []ast.Expr{n.Key, n.Value} {
				if id, ok := x.(*ast.Ident); ok && info.ObjectOf(id) == v {
					owns = false
				}
			}
		}
		return true
	})
	return owns
}
