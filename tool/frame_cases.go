package main

import (
	"go/constant"
	"fmt"
	"go/ast"
	"go/types"
	"sort"
	"strings"
)

// frameCaseCalls decides the case_calls clauses of all contracts for a property.
func (u *Universe) frameCaseCalls(prop string) []FrameResult {
	var out []FrameResult
	for _, fi := range u.contractsFor(prop) {
		for _, cc := range fi.Con.CaseCalls {
			name := fmt.Sprintf("frame:case-calls/%s/%s", funcLabel(fi), cc.Type)
			r := FrameResult{Name: name, Props: fi.Con.Props, Backend: "goframe"}
			info := fi.Pkg.TypesInfo
			var clause, deflt *ast.CaseClause
			ast.Inspect(fi.Decl.Body, func(n ast.Node) bool {
				ts, ok := n.(*ast.TypeSwitchStmt)
				if !ok {
					return true
				}
				for _, c := range ts.Body.List {
					cl := c.(*ast.CaseClause)
					if cl.List == nil && deflt == nil {
						deflt = cl
					}
					for _, tx := range cl.List {
						if types.ExprString(tx) == cc.Type {
							clause = cl
						}
					}
				}
				return true
			})
			if clause == nil {
				// no case of its own: the type is handled by the default clause, if any
				clause = deflt
			}
			if clause == nil {
				r.Detail = "no type-switch case " + cc.Type + " in " + funcLabel(fi)
				out = append(out, r)
				continue
			}
			allowed := map[string]bool{}
			var required []string
			for _, a := range cc.Allowed {
				if strings.HasPrefix(a, "!") {
					// "!name": the case must call it
					a = a[1:]
					required = append(required, a)
				}
				allowed[a] = true
			}
			var bad []string
			seen := map[string]bool{}
			for _, st := range clause.Body {
				ast.Inspect(st, func(n ast.Node) bool {
					call, ok := n.(*ast.CallExpr)
					if !ok {
						return true
					}
					if tv, ok := info.Types[call.Fun]; ok && tv.IsType() {
						return true // conversion
					}
					var nm string
					switch f := ast.Unparen(call.Fun).(type) {
					case *ast.Ident:
						nm = f.Name
					case *ast.SelectorExpr:
						nm = f.Sel.Name
					default:
						nm = types.ExprString(call.Fun)
					}
					seen[nm] = true
					if !allowed[nm] {
						pos := u.fset.Position(call.Pos())
						bad = append(bad, fmt.Sprintf("%s at %s:%d", types.ExprString(call.Fun), pos.Filename, pos.Line))
					}
					return true
				})
			}
			sort.Strings(bad)
			for _, rq := range required {
				if !seen[rq] {
					bad = append(bad, "required call "+rq+" is missing")
				}
			}
			r.OK = len(bad) == 0
			r.Detail = fmt.Sprintf("case %s of %s calls %v; allowed %v; not allowed: %s", cc.Type, funcLabel(fi), sortStrings(seen), cc.Allowed, strings.Join(bad, ", "))
			if !r.OK {
				r.Witness = "the case depends on " + bad[0]
			}
			out = append(out, r)
		}
	}
	return out
}

// frameMustReadAll decides the must_read clauses: every listed field of the
// input type is read somewhere in the function or in the /repo functions it
// can reach. A field that is never read cannot influence the output.
func (u *Universe) frameMustReadAll(prop string) []FrameResult {
	var out []FrameResult
	for _, fi := range u.contractsFor(prop) {
		for _, mr := range fi.Con.MustRead {
			reach := u.reachable(fi)
			read := map[string]string{}
			for g := range reach {
				info := g.Pkg.TypesInfo
				ast.Inspect(g.Decl.Body, func(n ast.Node) bool {
					sel, ok := n.(*ast.SelectorExpr)
					if !ok {
						return true
					}
					s, ok := info.Selections[sel]
					if !ok || s.Kind() != types.FieldVal {
						return true
					}
					on := ownerName(s.Recv())
					if on == mr.Type {
						if _, have := read[sel.Sel.Name]; !have {
							pos := u.fset.Position(sel.Pos())
							read[sel.Sel.Name] = fmt.Sprintf("%s:%d", pos.Filename, pos.Line)
						}
					}
					return true
				})
			}
			for _, f := range mr.Allowed {
				r := FrameResult{Name: fmt.Sprintf("frame:must-read/%s/%s.%s", funcLabel(fi), mr.Type, f), Props: fi.Con.Props, Backend: "goframe"}
				if where, ok := read[f]; ok {
					r.OK = true
					r.Detail = fmt.Sprintf("%s.%s is read at %s (%d functions reachable from %s)", mr.Type, f, where, len(reach), funcLabel(fi))
				} else {
					r.Detail = fmt.Sprintf("%s.%s is never read by %s or the %d functions it reaches: whatever it means is dropped", mr.Type, f, funcLabel(fi), len(reach))
					r.Witness = "two inputs differing only in " + mr.Type + "." + f + " are translated identically"
				}
				out = append(out, r)
			}
		}
	}
	return out
}

// groundNonEmptyGlobal: a package-level slice is initialised by a composite
// literal with at least one element and never assigned elsewhere.
func (u *Universe) groundNonEmptyGlobal(pkgRel, name string, props []string) FrameResult {
	r := FrameResult{Name: "ground:init-" + name, Props: props, Backend: "ground"}
	p := u.pkgs[garblePath+"/"+pkgRel]
	if pkgRel == "" {
		p = u.mainPkg()
	}
	if p == nil {
		r.Detail = "package not loaded"
		return r
	}
	obj := p.Types.Scope().Lookup(name)
	if obj == nil {
		r.Detail = "variable not found"
		return r
	}
	n := -1
	written := false
	for _, f := range p.Syntax {
		ast.Inspect(f, func(nd ast.Node) bool {
			switch nd := nd.(type) {
			case *ast.ValueSpec:
				for i, id := range nd.Names {
					if p.TypesInfo.Defs[id] == obj && i < len(nd.Values) {
						if cl, ok := nd.Values[i].(*ast.CompositeLit); ok {
							n = len(cl.Elts)
						}
					}
				}
			case *ast.AssignStmt:
				for _, l := range nd.Lhs {
					if id, ok := ast.Unparen(l).(*ast.Ident); ok && p.TypesInfo.ObjectOf(id) == obj {
						written = true
					}
				}
			}
			return true
		})
	}
	r.OK = n >= 1 && !written
	r.Detail = fmt.Sprintf("%s is initialised with %d elements; assigned elsewhere: %v", name, n, written)
	return r
}

// groundGlobalStrings: a package-level []string is initialised by a literal
// that contains every wanted element, is never assigned elsewhere, and is
// spread into an append call by each of the listed functions.
func (u *Universe) groundGlobalStrings(name string, want []string, users []string, props []string) FrameResult {
	r := FrameResult{Name: "ground:init-" + name, Props: props, Backend: "ground"}
	p := u.mainPkg()
	if p == nil {
		r.Detail = "package not loaded"
		return r
	}
	obj := p.Types.Scope().Lookup(name)
	if obj == nil {
		r.Detail = "variable not found"
		return r
	}
	have := map[string]bool{}
	written := false
	usedBy := map[string]bool{}
	for _, f := range p.Syntax {
		for _, d := range f.Decls {
			fd, _ := d.(*ast.FuncDecl)
			ast.Inspect(d, func(nd ast.Node) bool {
				switch nd := nd.(type) {
				case *ast.ValueSpec:
					for i, id := range nd.Names {
						if p.TypesInfo.Defs[id] == obj && i < len(nd.Values) {
							if cl, ok := nd.Values[i].(*ast.CompositeLit); ok {
								for _, el := range cl.Elts {
									if tv, ok := p.TypesInfo.Types[el]; ok && tv.Value != nil {
										have[constant.StringVal(tv.Value)] = true
									}
								}
							}
						}
					}
				case *ast.AssignStmt:
					for _, l := range nd.Lhs {
						if id, ok := ast.Unparen(l).(*ast.Ident); ok && p.TypesInfo.ObjectOf(id) == obj {
							written = true
						}
						if ix, ok := ast.Unparen(l).(*ast.IndexExpr); ok {
							if id, ok := ast.Unparen(ix.X).(*ast.Ident); ok && p.TypesInfo.ObjectOf(id) == obj {
								written = true
							}
						}
					}
				case *ast.CallExpr:
					if id, ok := ast.Unparen(nd.Fun).(*ast.Ident); ok && id.Name == "append" && nd.Ellipsis.IsValid() && fd != nil {
						if a, ok := ast.Unparen(nd.Args[len(nd.Args)-1]).(*ast.Ident); ok && p.TypesInfo.ObjectOf(a) == obj {
							usedBy[fd.Name.Name] = true
						}
					}
				}
				return true
			})
		}
	}
	var missing []string
	for _, w := range want {
		if !have[w] {
			missing = append(missing, "element "+w)
		}
	}
	for _, f := range users {
		if !usedBy[f] {
			missing = append(missing, "not spread into an append in "+f)
		}
	}
	r.OK = len(missing) == 0 && !written
	r.Detail = fmt.Sprintf("%s holds %v; assigned elsewhere: %v; spread into append by %v; missing: %v", name, sortStrings(have), written, sortStrings(usedBy), missing)
	if !r.OK {
		r.Witness = strings.Join(missing, "; ")
	}
	return r
}
