package main

import (
	"fmt"
	"go/ast"
	"go/types"
	"sort"
	"strings"
)

// frameCaseCalls decides the case_calls clauses of all contracts for a property.
func (u *Universe) frameCaseCalls(prop string) []FrameResult {
	var out []FrameResult
	for _, fi := range u.contractsFor(prop) {
		for _, cc := range fi.Con.CaseCalls {
			name := fmt.Sprintf("frame:case-calls/%s/%s", funcLabel(fi), cc.Type)
			r := FrameResult{Name: name, Props: fi.Con.Props, Backend: "goframe"}
			info := fi.Pkg.TypesInfo
			var clause *ast.CaseClause
			ast.Inspect(fi.Decl.Body, func(n ast.Node) bool {
				ts, ok := n.(*ast.TypeSwitchStmt)
				if !ok {
					return true
				}
				for _, c := range ts.Body.List {
					cl := c.(*ast.CaseClause)
					for _, tx := range cl.List {
						if types.ExprString(tx) == cc.Type {
							clause = cl
						}
					}
				}
				return true
			})
			if clause == nil {
				r.Detail = "no type-switch case " + cc.Type + " in " + funcLabel(fi)
				out = append(out, r)
				continue
			}
			allowed := map[string]bool{}
			for _, a := range cc.Allowed {
				allowed[a] = true
			}
			var bad []string
			seen := map[string]bool{}
			for _, st := range clause.Body {
				ast.Inspect(st, func(n ast.Node) bool {
					call, ok := n.(*ast.CallExpr)
					if !ok {
						return true
					}
					if tv, ok := info.Types[call.Fun]; ok && tv.IsType() {
						return true // conversion
					}
					var nm string
					switch f := ast.Unparen(call.Fun).(type) {
					case *ast.Ident:
						nm = f.Name
					case *ast.SelectorExpr:
						nm = f.Sel.Name
					default:
						nm = types.ExprString(call.Fun)
					}
					seen[nm] = true
					if !allowed[nm] {
						pos := u.fset.Position(call.Pos())
						bad = append(bad, fmt.Sprintf("%s at %s:%d", types.ExprString(call.Fun), pos.Filename, pos.Line))
					}
					return true
				})
			}
			sort.Strings(bad)
			r.OK = len(bad) == 0
			r.Detail = fmt.Sprintf("case %s of %s calls %v; allowed %v; not allowed: %s", cc.Type, funcLabel(fi), sortStrings(seen), cc.Allowed, strings.Join(bad, ", "))
			if !r.OK {
				r.Witness = "the case depends on " + bad[0]
			}
			out = append(out, r)
		}
	}
	return out
}
