package main

import (
	"regexp"
	"fmt"
	"go/ast"
	"go/token"
	"go/types"
	"math/big"
	"strings"
)

type bigInt = big.Int

// calleeName computes the name under which hooks and assumed contracts refer
// to a callee: "pkg/path.Func", "(*pkg/path.T).M" for concrete methods and
// "(pkg/path.I).M" for a call through interface I (static receiver type).
func calleeName(fn *types.Func, recvStatic types.Type) string {
	sig, _ := fn.Type().(*types.Signature)
	if sig != nil && sig.Recv() != nil {
		rt := sig.Recv().Type()
		if _, isIface := rt.Underlying().(*types.Interface); isIface && recvStatic != nil {
			return "(" + types.TypeString(types.Unalias(recvStatic), nil) + ")." + fn.Name()
		}
	}
	return fn.FullName()
}

var accessorPkgs = map[string]string{
	"go/types": "types", "go/ast": "ast", "go/token": "token", "go/constant": "constant",
	"golang.org/x/tools/go/ssa": "ssa",
}

// ufBaseName is the name of the uninterpreted function standing for a pure callee.
func ufBaseName(fn *types.Func, name string) string {
	if fn != nil && fn.Pkg() != nil {
		if short, ok := accessorPkgs[fn.Pkg().Path()]; ok {
			if sig, _ := fn.Type().(*types.Signature); sig != nil && sig.Recv() != nil {
				return short + "." + fn.Name()
			}
		}
	}
	return name
}

func (e *Eng) flatArgs(st *State, args []Val) (terms []string, sorts []string) {
	return e.flatArgsX(st, args, false)
}

// flatArgsX flattens values into SMT arguments. With canon, a byte slice is
// passed as the string of its contents (pure functions depend on nothing else).
func (e *Eng) flatArgsX(st *State, args []Val, canon bool) (terms []string, sorts []string) {
	for _, a := range args {
		switch a.K {
		case KSlice:
			if canon && !e.bv && isByteSlice(a.GoT) {
				terms = append(terms, e.canonBytes(st, a))
				sorts = append(sorts, "Str")
				continue
			}
			var et types.Type = types.Typ[types.Uint8]
			if a.GoT != nil {
				if s, ok := a.GoT.Underlying().(*types.Slice); ok {
					et = s.Elem()
				}
			}
			if e.kindOf(et) == KSlice {
				terms = append(terms, a.Ref, a.Off, a.Len)
				sorts = append(sorts, "Int", e.idxSort(), e.idxSort())
				continue
			}
			terms = append(terms, e.rowOf(st, a), a.Off, a.Len)
			sorts = append(sorts, "(Array "+e.idxSort()+" "+e.tagSort(e.elemTag(et))+")", e.idxSort(), e.idxSort())
		case KTuple:
			t, s := e.flatArgsX(st, a.Elts, canon)
			terms, sorts = append(terms, t...), append(sorts, s...)
		case KUnit:
		default:
			if canon && a.K == KRef && a.GoT != nil {
				// a struct VALUE is its contents, not the identity of the cell holding it
				if su, ok := a.GoT.Underlying().(*types.Struct); ok && su.NumFields() <= 8 {
					var fs []Val
					for i := 0; i < su.NumFields(); i++ {
						f := su.Field(i)
						fs = append(fs, e.loadLoc(st, e.fieldBase(f, ownerName(a.GoT)), []string{a.T}, f.Type()))
					}
					t, s := e.flatArgsX(st, fs, canon)
					terms, sorts = append(terms, t...), append(sorts, s...)
					continue
				}
			}
			terms = append(terms, a.T)
			sorts = append(sorts, e.sortOfKind(a.K, a.GoT))
		}
	}
	return
}

func mangle(sorts []string) string {
	var b strings.Builder
	for _, s := range sorts {
		b.WriteByte('$')
		b.WriteString(sanitize(s))
	}
	return b.String()
}

// ufApply builds an uninterpreted-function application for a pure callee.
func (e *Eng) ufApply(name string, args []Val, resT types.Type, c *ctx) Val {
	terms, sorts := e.flatArgsX(c.st, args, true)
	mk := func(suffix, rsort string) string {
		full := "|" + name + suffix + mangle(sorts) + "|"
		if _, inSpec := e.specSigs()[strings.Trim(full, "|")]; !inSpec {
			// spec files may declare (and constrain) the same symbol themselves
			e.declOnce(fmt.Sprintf("(declare-fun %s (%s) %s)", full, strings.Join(sorts, " "), rsort))
		}
		if len(terms) == 0 {
			return full
		}
		return "(" + full + " " + strings.Join(terms, " ") + ")"
	}
	var build func(t types.Type, suffix string) Val
	build = func(t types.Type, suffix string) Val {
		switch k := e.kindOf(t); k {
		case KSlice:
			v := Val{K: KSlice, GoT: t, Ref: mk(suffix+"#ref", "Int"), Off: e.idxLit(0), Len: mk(suffix+"#len", e.idxSort())}
			v.Cap = v.Len
			e.sliceFacts(c.st, v)
			return v
		case KTuple:
			tup := t.Underlying().(*types.Tuple)
			v := Val{K: KTuple, GoT: t}
			for i := 0; i < tup.Len(); i++ {
				v.Elts = append(v.Elts, build(tup.At(i).Type(), fmt.Sprintf("%s.%d", suffix, i)))
			}
			return v
		case KUnit:
			return Val{K: KUnit}
		default:
			if a, ok := t.Underlying().(*types.Array); ok && e.kindOf(a.Elem()) != KSlice {
				// array value: a fresh cell whose contents are a function of the arguments
				tag := e.elemTag(a.Elem())
				row := mk(suffix+"#row", "(Array "+e.idxSort()+" "+e.tagSort(tag)+")")
				cell := e.alloc(c.st, "ufarray")
				key := e.elemBase(a.Elem())
				e.heapSet(c.st, key, "(store "+e.heapGet(c.st, key)+" "+cell+" "+row+")")
				return Val{K: KRef, T: cell, GoT: t}
			}
			v := Val{K: k, T: mk(suffix, e.sortOfKind(k, t)), GoT: t}
			e.typeFacts(c.st, v)
			return v
		}
	}
	if resT == nil {
		return Val{K: KUnit}
	}
	if tup, ok := resT.(*types.Tuple); ok && tup.Len() == 0 {
		return Val{K: KUnit}
	}
	return build(resT, "")
}

// ---- call evaluation ----

func (e *Eng) evalCall(x *ast.CallExpr, c *ctx) Val {
	if c.spec {
		if v, ok := e.specBuiltin(x, c); ok {
			return v
		}
	} else {
		if tv, ok := e.info.Types[x.Fun]; ok && tv.IsType() {
			return e.conversion(x, tv.Type, c)
		}
		if id := identOf(ast.Unparen(x.Fun)); id != nil {
			if b, ok := e.info.Uses[id].(*types.Builtin); ok {
				return e.builtin(b.Name(), x, c)
			}
		}
	}
	// resolve the callee
	var fn *types.Func
	var recv *Val
	var recvStatic types.Type
	var fval Val
	fun := ast.Unparen(x.Fun)
	if c.spec {
		switch f := fun.(type) {
		case *ast.Ident:
			switch f.Name {
			case "len", "cap":
				return e.builtin(f.Name, x, c)
			}
			if tn, ok := e.lookupNameSafe(f.Name, c).(*types.TypeName); ok {
				return e.convertVal(e.eval(x.Args[0], c), tn.Type(), c, x)
			}
			fval = e.eval(f, c)
		case *ast.SelectorExpr:
			fval = e.eval(f, c)
		default:
			fval = e.eval(fun, c)
		}
	} else {
		switch f := fun.(type) {
		case *ast.SelectorExpr:
			if sel, ok := e.info.Selections[f]; ok && sel.Kind() == types.MethodVal {
				fn = sel.Obj().(*types.Func)
				rv := e.eval(f.X, c)
				e.implicitAddr(f.X, fn)
				// walk embedded fields to the actual receiver
				if idx := sel.Index(); len(idx) > 1 && !isAccessorPkg(fn) {
					rv = e.walkFields(rv, sel.Recv(), idx[:len(idx)-1], c, f)
				}
				recv = &rv
				recvStatic = rv.GoT
				if recvStatic == nil {
					recvStatic = e.info.TypeOf(f.X)
				}
			} else {
				fval = e.eval(f, c)
			}
		default:
			fval = e.eval(fun, c)
		}
	}
	if fn == nil && fval.Bound != nil {
		fn = fval.Bound.fn
		recv = fval.Bound.recv
		if recv != nil {
			recvStatic = recv.GoT
		}
	}
	// arguments
	var args []Val
	for _, a := range x.Args {
		v := e.eval(a, c)
		if v.K == KTuple && len(x.Args) == 1 {
			args = append(args, v.Elts...)
		} else {
			args = append(args, v)
		}
	}
	var sig *types.Signature
	if fn != nil {
		sig, _ = fn.Type().(*types.Signature)
	} else if fval.GoT != nil {
		sig, _ = fval.GoT.Underlying().(*types.Signature)
	}
	if sig != nil {
		for i := range args {
			var pt types.Type
			if i < sig.Params().Len() {
				pt = sig.Params().At(i).Type()
			}
			if sig.Variadic() && i >= sig.Params().Len()-1 && !x.Ellipsis.IsValid() {
				pt = sig.Params().At(sig.Params().Len() - 1).Type().(*types.Slice).Elem()
			}
			if pt != nil {
				if _, isTP := pt.(*types.TypeParam); !isTP {
					args[i] = e.copyVal(c.st, e.coerce(args[i], pt, c))
				}
			}
		}
	}
	var resT types.Type
	if sig != nil {
		switch sig.Results().Len() {
		case 0:
		case 1:
			resT = sig.Results().At(0).Type()
		default:
			resT = sig.Results()
		}
	}
	if !c.spec {
		if t := e.info.TypeOf(x); t != nil {
			// instantiated result type of generic calls
			if tup, ok := t.(*types.Tuple); !ok || tup.Len() > 0 {
				resT = t
			} else {
				resT = nil
			}
		}
	}
	if fn != nil {
		return e.callFunc(fn, recv, recvStatic, args, resT, x, c)
	}
	// call through a function value
	name := "value"
	if id, ok := fun.(*ast.Ident); ok {
		name = "var:" + id.Name
	}
	e.runHooks("before", name, nil, args, Val{}, x, c)
	var res Val
	if fval.Lit != nil && e.depth < 6 {
		res = e.inlineBody(fval.Lit.Type, fval.Lit.Body, nil, nil, args, resT, c, x, "closure")
	} else {
		if len(e.hooksFor("before", name))+len(e.hooksFor("after", name)) == 0 {
			e.abstract("call-of-func-value:"+name, x.Pos())
			e.havocAll(c.st)
		}
		res = e.freshResult(resT, c)
	}
	e.runHooks("after", name, nil, args, res, x, c)
	return res
}

func (e *Eng) freshResult(resT types.Type, c *ctx) Val {
	if resT == nil {
		return Val{K: KUnit}
	}
	if tup, ok := resT.(*types.Tuple); ok && tup.Len() == 0 {
		return Val{K: KUnit}
	}
	return e.symFor("ret", resT, c.st)
}

func (e *Eng) havocAll(st *State) {
	old := st.front()
	e.havocGroup(st, func() {
		e.havocAllHeaps(st, nil)
		st.epoch++
		if !noFrontier {
			fr := e.epochFrontier(st)
			if st.groupFr != "" {
				st.assume("(= " + fr + " " + st.groupFr + ")")
			} else {
				st.assume("(<= " + fr + " " + old + ")")
				st.groupFr = fr
			}
			st.frontier = fr
		}
	})
}

// callFunc dispatches a call to a statically known function or method.
func (e *Eng) callFunc(fn *types.Func, recv *Val, recvStatic types.Type, args []Val, resT types.Type, x *ast.CallExpr, c *ctx) Val {
	name := calleeName(fn, recvStatic)
	all := args
	if recv != nil {
		all = append([]Val{*recv}, args...)
	}
	e.runHooks("before", name, recv, args, Val{}, x, c)
	frBefore := c.st.front()
	res := e.dispatch(fn, name, recv, args, all, resT, x, c)
	if !noFrontier && !c.st.dead {
		if c.st.front() == frBefore {
			// the callee may have allocated (e.g. the object it returns): the frontier can only be lower
			fr := e.newSym("fr", "Int")
			c.st.assume("(<= " + fr + " " + frBefore + ")")
			c.st.frontier = fr
		}
		e.existingRefs(c.st, res)
	}
	e.runHooks("after", name, recv, args, res, x, c)
	return res
}

func (e *Eng) dispatch(fn *types.Func, name string, recv *Val, args, all []Val, resT types.Type, x *ast.CallExpr, c *ctx) Val {
	origin := fn.Origin()
	// 1. functions of /repo
	if fi := e.u.byObj[origin]; fi != nil {
		if fi.Con != nil {
			con := fi.Con
			if con.Inline && e.depth < 6 {
				e.noteInline(name)
				return e.inlineBody(fi.Decl.Type, fi.Decl.Body, fi, recv, args, resT, c, x, name)
			}
			return e.applyContract(con, fi, name, recv, args, resT, x, c)
		}
		if e.autoInline(fi) && e.depth < 6 {
			e.noteInline(name)
			return e.inlineBody(fi.Decl.Type, fi.Decl.Body, fi, recv, args, resT, c, x, name)
		}
	}
	// 2a. exact semantics of a few standard-library predicates on literal arguments
	if v, ok := e.stdShortcut(name, all, c); ok {
		e.noteAssumed("definition " + name + " (expanded for a literal argument)")
		return v
	}
	// 2. assumed contracts
	if con := e.u.cs.Externs[name]; con != nil {
		e.noteAssumed("extern contract " + name)
		return e.applyContract(con, nil, name, recv, args, resT, x, c)
	}
	pkgPath := ""
	if fn.Pkg() != nil {
		pkgPath = fn.Pkg().Path()
	}
	switch {
	case e.u.cs.PureFuncs[name] || e.u.cs.PurePkgs[pkgPath]:
		e.noteAssumed("pure " + name)
		v := e.ufApply(ufBaseName(fn, name), all, resT, c)
		if e.u.cs.NonNil[name] && v.K == KRef {
			c.st.assume("(not (= " + v.T + " 0))")
		}
		return v
	case e.u.cs.IOFuncs[name]:
		e.noteAssumed("io " + name)
		v := e.freshResult(resT, c)
		if e.u.cs.NonNil[name] && v.K == KRef {
			c.st.assume("(not (= " + v.T + " 0))")
		}
		return v
	}
	// 3. unknown: conservative havoc
	if len(e.hooksFor("before", name))+len(e.hooksFor("after", name)) == 0 || true {
		e.abstract("unknown-call:"+name, x.Pos())
	}
	e.havocAll(c.st)
	return e.freshResult(resT, c)
}

func (e *Eng) noteInline(n string) {
	if e.inlined == nil {
		e.inlined = map[string]bool{}
	}
	e.inlined[n] = true
}

func (e *Eng) noteAssumed(n string) {
	if e.usedAssume == nil {
		e.usedAssume = map[string]bool{}
	}
	e.usedAssume[n] = true
}

// autoInline: same-repo functions without contract whose body is a single
// return of an expression without calls to non-inlinable functions.
func (e *Eng) autoInline(fi *FuncInfo) bool {
	if len(fi.Decl.Body.List) != 1 {
		return false
	}
	rs, ok := fi.Decl.Body.List[0].(*ast.ReturnStmt)
	if !ok || len(rs.Results) != 1 {
		return false
	}
	simple := true
	ast.Inspect(rs.Results[0], func(n ast.Node) bool {
		switch n := n.(type) {
		case *ast.CallExpr:
			if id, ok := n.Fun.(*ast.Ident); ok {
				if _, isB := fi.Pkg.TypesInfo.Uses[id].(*types.Builtin); isB {
					return true
				}
				if tv, ok := fi.Pkg.TypesInfo.Types[n.Fun]; ok && tv.IsType() {
					return true
				}
			}
			simple = false
		case *ast.FuncLit:
			simple = false
		}
		return true
	})
	return simple
}

// inlineBody symbolically executes a callee body in the caller's state.
func (e *Eng) inlineBody(ft *ast.FuncType, body *ast.BlockStmt, fi *FuncInfo, recv *Val, args []Val, resT types.Type, c *ctx, at ast.Node, name string) Val {
	savedInfo, savedPkg, savedRet := e.info, e.pkg, e.retVars
	savedLoop, savedSite := e.loopOrd, e.siteOrd
	savedCon, savedRes := e.con, e.curRes
	savedOwned := e.owned
	defer func() { e.owned = savedOwned }()
	if fi != nil {
		e.info, e.pkg = fi.Pkg.TypesInfo, fi.Pkg
		e.con = fi.Con
		e.numberSites(fi.Decl.Body)
		e.owned = e.ownedSlices(fi.Decl.Body)
	}
	e.curRes = resTypesOf(resT)
	e.depth++
	defer func() {
		e.depth--
		e.info, e.pkg, e.retVars, e.loopOrd, e.siteOrd, e.con, e.curRes = savedInfo, savedPkg, savedRet, savedLoop, savedSite, savedCon, savedRes
	}()
	st := c.st.clone()
	st.defers = nil
	nBase := len(st.pc)
	// bind receiver and parameters
	if fi != nil && fi.Decl.Recv != nil && recv != nil {
		for _, f := range fi.Decl.Recv.List {
			for _, n := range f.Names {
				if o := e.info.Defs[n]; o != nil {
					st.vars[o] = e.copyVal(st, *recv)
				}
			}
		}
	}
	i := 0
	if ft.Params != nil {
		nparams := ft.Params.NumFields()
		for _, f := range ft.Params.List {
			names := f.Names
			if len(names) == 0 {
				i++
				continue
			}
			for _, n := range names {
				o := e.info.Defs[n]
				_, isVariadic := f.Type.(*ast.Ellipsis)
				if isVariadic && i == nparams-1 {
					// pack remaining args (unless passed with ...)
					if call, ok := at.(*ast.CallExpr); ok && call.Ellipsis.IsValid() && i < len(args) {
						if o != nil {
							st.vars[o] = args[i]
						}
					} else if o != nil {
						st.vars[o] = e.packVariadic(st, args[min(i, len(args)):], o.Type())
					}
				} else if i < len(args) && o != nil {
					st.vars[o] = args[i]
				}
				i++
			}
		}
	}
	// result variables
	var rvars []types.Object
	if ft.Results != nil {
		for _, f := range ft.Results.List {
			for _, n := range f.Names {
				if o := e.info.Defs[n]; o != nil {
					st.vars[o] = e.zeroVal(o.Type(), st)
					rvars = append(rvars, o)
				}
			}
		}
	}
	e.retVars = rvars
	outs := e.block(body.List, st)
	outs = e.finishReturns(outs, rvars)
	var live []Out
	for _, o := range outs {
		if o.st.dead {
			continue
		}
		if o.kind == Normal {
			o.kind = Return
		}
		live = append(live, o)
	}
	if len(live) == 0 {
		c.st.dead = true
		c.st.assume("false")
		return e.freshResult(resT, c)
	}
	joined, res := e.joinOuts(live, nBase, resT)
	joined.defers = c.st.defers
	*c.st = *joined
	return res
}

func (e *Eng) packVariadic(st *State, rest []Val, t types.Type) Val {
	sl, ok := t.Underlying().(*types.Slice)
	if !ok {
		return e.symFor("variadic", t, st)
	}
	if len(rest) == 0 {
		return e.zeroVal(t, st)
	}
	ref := e.alloc(st, "variadic")
	for i, v := range rest {
		e.storeLoc(st, e.elemBase(sl.Elem()), []string{ref, e.idxLit(int64(i))}, v)
	}
	n := e.idxLit(int64(len(rest)))
	return Val{K: KSlice, Ref: ref, Off: e.idxLit(0), Len: n, Cap: n, GoT: t}
}

func conj(ps []string) string {
	switch len(ps) {
	case 0:
		return "true"
	case 1:
		return ps[0]
	}
	return "(and " + strings.Join(ps, " ") + ")"
}

// joinOuts merges several outcome states that forked from a state with nBase
// path-condition entries.
func (e *Eng) joinOuts(outs []Out, nBase int, resT types.Type) (*State, Val) {
	retOf := func(o Out) Val {
		switch len(o.rets) {
		case 0:
			return Val{K: KUnit}
		case 1:
			return o.rets[0]
		}
		return Val{K: KTuple, Elts: o.rets, GoT: resT}
	}
	if len(outs) == 1 {
		return outs[0].st, retOf(outs[0])
	}
	guards := make([]string, len(outs))
	var guardDefs []string
	for i, o := range outs {
		g := conj(o.st.pc[nBase:])
		if len(g) > nameThreshold {
			// name the guard so that it is not repeated in every merged term
			s := e.newSym("g", "Bool")
			guardDefs = append(guardDefs, "(= "+s+" "+g+")")
			g = s
		}
		guards[i] = g
	}
	acc := outs[len(outs)-1].st.clone()
	accRet := retOf(outs[len(outs)-1])
	acc.pc = append([]string(nil), acc.pc[:nBase]...)
	for i := len(outs) - 2; i >= 0; i-- {
		o := outs[i]
		g := guards[i]
		for k, va := range o.st.vars {
			if vb, ok := acc.vars[k]; ok {
				acc.vars[k] = iteVal(g, va, vb)
			} else {
				acc.vars[k] = va
			}
		}
		for k, va := range o.st.ghost {
			if vb, ok := acc.ghost[k]; ok {
				acc.ghost[k] = iteVal(g, va, vb)
			} else {
				acc.ghost[k] = va
			}
		}
		keys := map[string]bool{}
		for k := range o.st.heap {
			keys[k] = true
		}
		for k := range acc.heap {
			keys[k] = true
		}
		for k := range keys {
			ta := e.heapGet(o.st, k)
			tb := e.heapGet(acc, k)
			acc.heap[k] = ite(g, ta, tb)
		}
		if o.st.epoch > acc.epoch {
			acc.epoch = o.st.epoch
		}
		acc.tainted = acc.tainted || o.st.tainted
		seen := map[string]bool{}
		for _, a := range acc.allocs {
			seen[a] = true
		}
		for _, a := range o.st.allocs {
			if !seen[a] {
				acc.allocs = append(acc.allocs, a)
			}
		}
		seenK := map[string]bool{}
		for _, a := range acc.known {
			seenK[a] = true
		}
		for _, a := range o.st.known {
			if !seenK[a] {
				acc.known = append(acc.known, a)
			}
		}
		if o.st.front() != acc.front() {
			acc.frontier = ite(g, o.st.front(), acc.front())
		}
		accRet = iteVal(g, retOf(o), accRet)
	}
	acc.pc = append(acc.pc, guardDefs...)
	acc.pc = append(acc.pc, "(or "+strings.Join(guards, " ")+")")
	for _, k := range sortedObjs(acc.vars) {
		acc.vars[k] = e.nameTerm(acc, acc.vars[k], k.Name())
	}
	for _, k := range sortedKeys(acc.ghost) {
		acc.ghost[k] = e.nameTerm(acc, acc.ghost[k], "g."+k)
	}
	e.nameHeaps(acc)
	accRet = e.nameTerm(acc, accRet, "ret")
	return acc, accRet
}

// ---- contracts at call sites ----

func (e *Eng) contractEnv(con *Contract, fi *FuncInfo, recv *Val, args []Val) (map[string]Val, []string) {
	env := map[string]Val{}
	var resNames []string
	if fi != nil {
		if fi.Decl.Recv != nil && recv != nil {
			for _, f := range fi.Decl.Recv.List {
				for _, n := range f.Names {
					env[n.Name] = *recv
				}
			}
		}
		i := 0
		for _, f := range fi.Decl.Type.Params.List {
			for _, n := range f.Names {
				if i < len(args) {
					env[n.Name] = args[i]
				}
				i++
			}
			if len(f.Names) == 0 {
				i++
			}
		}
		if fi.Decl.Type.Results != nil {
			k := 0
			for _, f := range fi.Decl.Type.Results.List {
				if len(f.Names) == 0 {
					resNames = append(resNames, fmt.Sprintf("r%d", k))
					k++
				}
				for _, n := range f.Names {
					resNames = append(resNames, n.Name)
					k++
				}
			}
		}
		if len(con.Results) > 0 {
			resNames = con.Results
		}
	} else {
		all := args
		if recv != nil {
			all = append([]Val{*recv}, args...)
		}
		for i, n := range con.Params {
			if i < len(all) {
				env[n] = all[i]
			}
		}
		// variadic tail as $rest count is not needed
		resNames = con.Results
	}
	return env, resNames
}

func (e *Eng) calleePkgCtx(con *Contract, fi *FuncInfo, c *ctx, env map[string]Val, old *State) *ctx {
	n := &ctx{st: c.st, old: old, env: env, spec: true, noOblig: true, bound: map[string]Val{}}
	if fi != nil {
		n.pkg = fi.Pkg
	} else {
		n.pkg = e.pkg
	}
	return n
}

func (e *Eng) applyContract(con *Contract, fi *FuncInfo, name string, recv *Val, args []Val, resT types.Type, x *ast.CallExpr, c *ctx) Val {
	for _, sf := range con.Spec {
		// the callee's contract may mention spec functions the caller does not import itself
		have := false
		for _, x := range e.specFiles {
			if x == sf {
				have = true
			}
		}
		if !have {
			e.specFiles = append(e.specFiles, sf)
		}
	}
	env, resNames := e.contractEnv(con, fi, recv, args)
	cc := e.calleePkgCtx(con, fi, c, env, nil)
	// ghost variables declared inside the callee's contract are private to one
	// activation of the callee: clauses about them say nothing to a caller
	local := map[string]bool{}
	for _, g := range con.Ghosts {
		local[g.Name] = true
	}
	// likewise a clause about a local variable of the callee's body (e.g. the node it
	// built before wrapping it) is checked for the callee and says nothing to a caller
	if fi != nil && fi.Decl != nil && fi.Decl.Body != nil {
		params := map[string]bool{}
		for _, fl := range []*ast.FieldList{fi.Decl.Recv, fi.Decl.Type.Params, fi.Decl.Type.Results} {
			if fl == nil {
				continue
			}
			for _, f := range fl.List {
				for _, n := range f.Names {
					params[n.Name] = true
				}
			}
		}
		ast.Inspect(fi.Decl.Body, func(n ast.Node) bool {
			switch n := n.(type) {
			case *ast.FuncLit:
				return false
			case *ast.AssignStmt:
				if n.Tok == token.DEFINE {
					for _, l := range n.Lhs {
						if id, ok := l.(*ast.Ident); ok && !params[id.Name] && id.Name != "_" {
							local[id.Name] = true
						}
					}
				}
			case *ast.ValueSpec:
				for _, id := range n.Names {
					if !params[id.Name] && id.Name != "_" {
						local[id.Name] = true
					}
				}
			case *ast.RangeStmt:
				if n.Tok == token.DEFINE {
					for _, l := range []ast.Expr{n.Key, n.Value} {
						if id, ok := l.(*ast.Ident); ok && !params[id.Name] && id.Name != "_" {
							local[id.Name] = true
						}
					}
				}
			}
			return true
		})
	}
	mentionsLocal := func(src string) bool {
		bound := map[string]bool{}
		for _, m := range rxBinder.FindAllStringSubmatch(src, -1) {
			for _, n := range strings.Split(m[2], ",") {
				bound[strings.TrimSpace(n)] = true
			}
		}
		for g := range local {
			if bound[g] {
				continue // a quantified variable that happens to share its name with a local
			}
			if containsWord(src, g) || mentionsVar(src, g) {
				return true
			}
		}
		return false
	}
	_ = e.callOrd[x]
	if !c.spec {
		for k, r := range con.Requires {
			if mentionsLocal(r.Src) {
				continue // about the callee's private ghost state at its entry: nothing for a caller to establish
			}
			g := e.specBool(r.Expr, cc)
			lbl := fmt.Sprintf("call:%s/requires#%d", shortName(name), k)
			if r.Label != "" {
				lbl = fmt.Sprintf("call:%s/requires:%s", shortName(name), r.Label)
			}
			e.oblig("call-requires", lbl, c.st, g, x.Pos())
			c.st.assume(g)
		}
	}
	pre := c.st.clone()
	detRes, haveDet := e.detCallResult(con, fi, name, env, resT, c)
	if c.spec && !(con.Pure || con.Effect == "pure") {
		// a contract expression naming a deterministic function denotes its result
		// (an uninterpreted function of the declared inputs); it has no effects here
		if haveDet {
			return detRes
		}
		panic("spec: call to " + name + ", which is neither pure nor declared deterministic")
	}
	e.havocGroup(c.st, func() {
	// effects
	switch {
	case con.Pure || con.Effect == "pure":
	case con.Extern && con.Effect == "havoc":
		e.havocAll(c.st)
	case con.Extern:
		for _, cb := range con.Callbacks {
			// the function literal given for this parameter runs zero or more times: everything
			// its body can assign is forgotten, as for a loop without an invariant; anything
			// other than a literal is not understood and forgets all memory
			idx := -1
			for i, a := range con.Params {
				if a == cb {
					idx = i
				}
			}
			if recv != nil {
				idx--
			}
			var lit *ast.FuncLit
			if x != nil && idx >= 0 && idx < len(x.Args) {
				lit, _ = ast.Unparen(x.Args[idx]).(*ast.FuncLit)
				if id, ok := ast.Unparen(x.Args[idx]).(*ast.Ident); ok && lit == nil {
					// a local bound once to a function literal stands for that literal
					if v, ok := e.info.Uses[id].(*types.Var); ok {
						lit = e.soleFuncLit(v)
					}
				}
			}
			if lit == nil {
				e.havocAll(c.st)
			} else {
				e.havocStmt(lit.Body, c.st)
			}
		}
		for _, w := range con.Writes {
			if v, ok := env[w]; ok {
				if con.SkipTag != "" {
					e.havocFieldsExceptTag(c.st, v, con.SkipTag)
				} else {
					e.havocPointee(c.st, v)
				}
			}
		}
	case !con.HasAssign:
		e.havocAll(c.st)
	}
	for _, it := range con.Assigns {
		e.havocItem(it, con, fi, env, c)
	}
	})
	// ghost state that the postconditions speak about is changed by the callee
	for _, g := range sortedKeys(c.st.ghost) {
		if con.Extern {
			break // assumed contracts only read ghost state; hooks are what change it
		}
		if local[g] {
			continue
		}
		for _, en := range con.Ensures {
			if containsWord(en.Src, g) {
				c.st.ghost[g] = e.freshGhost(g, c.st.ghost[g], c.st)
				break
			}
		}
	}
	// results
	var res Val
	all := args
	if recv != nil {
		all = append([]Val{*recv}, args...)
	}
	if con.Pure || con.Effect == "pure" {
		var fn *types.Func
		if fi != nil {
			fn = fi.Obj
		}
		res = e.ufApply(ufBaseName(fn, name), all, resT, c)
	} else if haveDet {
		res = detRes
	} else {
		res = e.freshResult(resT, c)
	}
	if con.NonNil && res.K == KRef {
		c.st.assume("(not (= " + res.T + " 0))")
	}
	switch {
	case res.K == KTuple:
		for i, v := range res.Elts {
			if i < len(resNames) {
				env[resNames[i]] = v
			}
		}
	case res.K != KUnit:
		if len(resNames) > 0 {
			env[resNames[0]] = res
		}
		env["result"] = res
	}
	post := e.calleePkgCtx(con, fi, c, env, pre)
	for k, en := range con.Ensures {
		if fi != nil && e.u.knownFailing[funcLabel(fi)+"/"+e.clauseName("ensures", k, en)] {
			continue // a postcondition recorded as a known finding does not hold: callers must not rely on it
		}
		if mentionsLocal(en.Src) {
			continue
		}
		e.assumeGen(c, e.specBool(en.Expr, post))
	}
	return res
}

func shortName(n string) string {
	n = strings.ReplaceAll(n, garblePath+"/internal/", "")
	n = strings.ReplaceAll(n, garblePath+".", "")
	n = strings.ReplaceAll(n, garblePath, "main")
	return n
}

// havocPointee forgets what a pointer, slice or cell argument points to.
func (e *Eng) havocPointee(st *State, v Val) {
	switch v.K {
	case KSlice:
		var et types.Type = types.Typ[types.Uint8]
		if v.GoT != nil {
			if s, ok := v.GoT.Underlying().(*types.Slice); ok {
				et = s.Elem()
			}
		}
		for _, cmp := range e.comps(et) {
			key := e.elemBase(et) + cmp
			h := e.heapGet(st, key)
			row := e.newSym("row", strings.TrimSuffix(strings.TrimPrefix(e.heapSort(key), "(Array Int "), ")"))
			e.heapSet(st, key, "(store "+h+" "+v.Ref+" "+row+")")
		}
	case KRef:
		if v.GoT == nil {
			return
		}
		t := derefType(v.GoT)
		switch u := t.Underlying().(type) {
		case *types.Struct:
			for i := 0; i < u.NumFields(); i++ {
				f := u.Field(i)
				for _, cmp := range e.comps(f.Type()) {
					key := e.fieldBase(f, ownerName(t)) + cmp
					h := e.heapGet(st, key)
					s := e.heapSort(key)
					el := strings.TrimSuffix(strings.TrimPrefix(s, "(Array Int "), ")")
					e.heapSet(st, key, "(store "+h+" "+v.T+" "+e.newSym("fld", el)+")")
				}
			}
		case *types.Array:
			for _, cmp := range e.comps(u.Elem()) {
				key := e.elemBase(u.Elem()) + cmp
				h := e.heapGet(st, key)
				row := e.newSym("row", strings.TrimSuffix(strings.TrimPrefix(e.heapSort(key), "(Array Int "), ")"))
				e.heapSet(st, key, "(store "+h+" "+v.T+" "+row+")")
			}
		default:
			key := "P:" + e.elemTag(t)
			h := e.heapGet(st, key)
			e.heapSet(st, key, "(store "+h+" "+v.T+" "+e.newSym("pv", e.tagSort(e.elemTag(t)))+")")
		}
	}
}

// havocItem implements one entry of an assigns clause at a call site.
func (e *Eng) havocItem(item string, con *Contract, fi *FuncInfo, env map[string]Val, c *ctx) {
	st := c.st
	switch {
	case item == "*":
		e.havocAll(st)
		return
	case item == "nothing":
		return
	case strings.HasPrefix(item, "ghost "):
		g := strings.TrimSpace(item[6:])
		if v, ok := st.ghost[g]; ok {
			st.ghost[g] = e.freshGhost(g, v, st)
		}
		return
	case strings.HasPrefix(item, "elems(") || strings.HasPrefix(item, "fields(") || strings.HasPrefix(item, "pointee("):
		n := item[strings.Index(item, "(")+1 : len(item)-1]
		if v, ok := env[n]; ok {
			e.havocPointee(st, v)
		}
		return
	}
	pkg := e.pkg
	if fi != nil {
		pkg = fi.Pkg
	}
	// Type.field family
	if i := strings.Index(item, "."); i > 0 {
		tn, fname := item[:i], item[i+1:]
		if obj, ok := pkg.Types.Scope().Lookup(tn).(*types.TypeName); ok {
			if s, ok := obj.Type().Underlying().(*types.Struct); ok {
				for j := 0; j < s.NumFields(); j++ {
					if s.Field(j).Name() == fname {
						for _, cmp := range e.comps(s.Field(j).Type()) {
							e.heapHavoc(st, e.fieldBase(s.Field(j), ownerName(obj.Type()))+cmp)
						}
						return
					}
				}
			}
		}
		// global struct variable's field: g.f
		if gv, ok := pkg.Types.Scope().Lookup(tn).(*types.Var); ok {
			if s, ok := derefType(gv.Type()).Underlying().(*types.Struct); ok {
				for j := 0; j < s.NumFields(); j++ {
					if s.Field(j).Name() == fname {
						cell := e.loadGlobal(st, gv)
						for _, cmp := range e.comps(s.Field(j).Type()) {
							key := e.fieldBase(s.Field(j), ownerName(gv.Type())) + cmp
							h := e.heapGet(st, key)
							el := strings.TrimSuffix(strings.TrimPrefix(e.heapSort(key), "(Array Int "), ")")
							e.heapSet(st, key, "(store "+h+" "+cell.T+" "+e.newSym("fld", el)+")")
						}
						return
					}
				}
			}
		}
	}
	if gv, ok := pkg.Types.Scope().Lookup(item).(*types.Var); ok {
		switch gv.Type().Underlying().(type) {
		case *types.Struct, *types.Array:
			e.havocPointee(st, e.loadGlobal(st, gv))
		default:
			for _, cmp := range e.comps(gv.Type()) {
				e.heapHavoc(st, e.globalBase(gv)+cmp)
			}
		}
		return
	}
	panic(fmt.Sprintf("assigns: cannot resolve %q in contract of %s", item, con.Key))
}

// ---- conversions and builtins ----

func (e *Eng) conversion(x *ast.CallExpr, t types.Type, c *ctx) Val {
	v := e.eval(x.Args[0], c)
	return e.convertVal(v, t, c, x)
}

func (e *Eng) convertVal(v Val, t types.Type, c *ctx, n ast.Node) Val {
	tk := e.kindOf(t)
	switch {
	case tk == KInt && v.K == KInt:
		return e.convertInt(v, t, c)
	case tk == KStr && v.K == KStr:
		v.GoT = t
		return v
	case tk == KStr && v.K == KSlice && e.bv:
		// bit-vector mode: indices are 64-bit vectors, bytes 8-bit vectors
		e.declOnce("(declare-fun sofb ((Array (_ BitVec 64) (_ BitVec 8)) (_ BitVec 64) (_ BitVec 64)) Str)")
		row := e.rowOf(c.st, v)
		s := Val{K: KStr, T: "(sofb " + row + " " + v.Off + " " + v.Len + ")", GoT: t}
		c.st.assume("(= (slen " + s.T + ") " + v.Len + ")")
		c.st.assume("(forall ((i (_ BitVec 64))) (! (=> (and (bvsle (_ bv0 64) i) (bvslt i " + v.Len + ")) (= (sat " + s.T + " i) (select " + row + " (bvadd " + v.Off + " i)))) :pattern ((sat " + s.T + " i))))")
		return s
	case tk == KStr && v.K == KSlice:
		e.declOnce("(declare-fun sofb ((Array Int Int) Int Int) Str)")
		row := e.rowOf(c.st, v)
		s := Val{K: KStr, T: "(sofb " + row + " " + v.Off + " " + v.Len + ")", GoT: t}
		c.st.assume("(= (slen " + s.T + ") " + v.Len + ")")
		c.st.assume("(forall ((i Int)) (! (=> (and (<= 0 i) (< i " + v.Len + ")) (= (sat " + s.T + " i) (select " + row + " (+ " + v.Off + " i)))) :pattern ((sat " + s.T + " i))))")
		return s
	case tk == KSlice && v.K == KStr:
		ref := e.alloc(c.st, "bytes")
		e.declOnce("(declare-fun bofs (Str) (Array Int Int))")
		e.declOnce("(assert (forall ((s Str) (i Int)) (! (= (select (bofs s) i) (sat s i)) :pattern ((select (bofs s) i)))))")
		key := e.elemBase(types.Typ[types.Uint8])
		h := e.heapGet(c.st, key)
		e.heapSet(c.st, key, "(store "+h+" "+ref+" (bofs "+v.T+"))")
		return Val{K: KSlice, Ref: ref, Off: "0", Len: "(slen " + v.T + ")", Cap: "(slen " + v.T + ")", GoT: t}
	case tk == KStr && v.K == KInt:
		e.declOnce("(declare-fun sofrune (Int) Str)")
		return Val{K: KStr, T: "(sofrune " + v.T + ")", GoT: t}
	case tk == KSlice && v.K == KSlice:
		v.GoT = t
		return v
	case tk == KSlice && v.K == KRef:
		return e.coerce(v, t, c)
	case tk == KRef && v.K == KRef:
		if v.GoT != nil {
			if _, ok := t.Underlying().(*types.Interface); ok {
				return e.coerce(v, t, c)
			}
		}
		v.GoT = t
		return v
	case tk == KBool && v.K == KBool:
		v.GoT = t
		return v
	case tk == KRef:
		return e.coerce(v, t, c)
	}
	if ex, ok := n.(ast.Expr); ok {
		return e.unknownExpr(ex, c, "conversion")
	}
	return e.symFor("conv", t, c.st)
}

func (e *Eng) lenOf(v Val, c *ctx) Val {
	intT := types.Typ[types.Int]
	switch {
	case v.K == KStr:
		return Val{K: KInt, T: "(slen " + v.T + ")", GoT: intT}
	case v.K == KSlice:
		return Val{K: KInt, T: v.Len, GoT: intT}
	case v.K == KGMap:
		return Val{K: KInt, T: e.newSym("glen", "Int"), GoT: intT}
	case v.GoT != nil:
		switch u := derefType(v.GoT).Underlying().(type) {
		case *types.Array:
			return Val{K: KInt, T: e.idxLit(u.Len()), GoT: intT}
		case *types.Map:
			r := Val{K: KInt, T: "(select " + e.heapGet(c.st, "ML") + " " + v.T + ")", GoT: intT}
			c.st.assume("(<= 0 " + r.T + ")")
			c.st.assume("(=> (= " + v.T + " 0) (= " + r.T + " 0))")
			return r
		}
	}
	r := Val{K: KInt, T: e.newSym("len", e.idxSort()), GoT: intT}
	if !e.bv {
		c.st.assume("(<= 0 " + r.T + ")")
	}
	return r
}

func (e *Eng) builtin(name string, x *ast.CallExpr, c *ctx) Val {
	intT := types.Typ[types.Int]
	switch name {
	case "len":
		return e.lenOf(e.eval(x.Args[0], c), c)
	case "cap":
		v := e.eval(x.Args[0], c)
		if v.K == KSlice {
			return Val{K: KInt, T: v.Cap, GoT: intT}
		}
		return e.lenOf(v, c)
	case "panic":
		e.eval(x.Args[0], c)
		e.panicHere(x, c, "panic")
		return Val{K: KUnit}
	case "print", "println":
		for _, a := range x.Args {
			e.eval(a, c)
		}
		return Val{K: KUnit}
	case "new":
		t := e.info.TypeOf(x.Args[0])
		z := e.zeroVal(t, c.st)
		switch t.Underlying().(type) {
		case *types.Struct, *types.Array:
			return Val{K: KRef, T: z.T, GoT: types.NewPointer(t)}
		}
		r := e.alloc(c.st, "new")
		key := "P:" + e.elemTag(t)
		if z.K != KSlice {
			e.heapSet(c.st, key, "(store "+e.heapGet(c.st, key)+" "+r+" "+z.T+")")
		}
		return Val{K: KRef, T: r, GoT: types.NewPointer(t)}
	case "make":
		t := e.info.TypeOf(x.Args[0])
		switch u := t.Underlying().(type) {
		case *types.Slice:
			n := e.eval(x.Args[1], c)
			nT := e.idxTerm(n, c)
			cp := nT
			if len(x.Args) > 2 {
				cp = e.idxTerm(e.eval(x.Args[2], c), c)
			}
			e.safety("makelen", x, c, "(and "+e.le(e.idxLit(0), nT)+" "+e.le(nT, cp)+")")
			ref := e.alloc(c.st, "make")
			if e.kindOf(u.Elem()) != KSlice {
				z := e.zeroValNoAlloc(u.Elem(), c.st)
				key := e.elemBase(u.Elem())
				row := fmt.Sprintf("((as const (Array %s %s)) %s)", e.idxSort(), e.tagSort(e.elemTag(u.Elem())), z)
				e.heapSet(c.st, key, "(store "+e.heapGet(c.st, key)+" "+ref+" "+row+")")
			}
			return Val{K: KSlice, Ref: ref, Off: e.idxLit(0), Len: nT, Cap: cp, GoT: t}
		case *types.Map:
			m := Val{K: KRef, T: e.alloc(c.st, "map"), GoT: t}
			_, pkey := e.mapKeys(u)
			ph := e.heapGet(c.st, pkey)
			e.heapSet(c.st, pkey, "(store "+ph+" "+m.T+" ((as const (Array "+e.tagSort(e.elemTag(u.Key()))+" Bool)) false))")
			e.heapSet(c.st, "ML", "(store "+e.heapGet(c.st, "ML")+" "+m.T+" 0)")
			return m
		}
		for _, a := range x.Args[1:] {
			e.eval(a, c)
		}
		return Val{K: KRef, T: e.alloc(c.st, "chan"), GoT: t}
	case "append":
		return e.appendBuiltin(x, c)
	case "copy":
		dst := e.eval(x.Args[0], c)
		src := e.eval(x.Args[1], c)
		return e.copyBuiltin(dst, src, c, x)
	case "delete":
		m := e.eval(x.Args[0], c)
		k := e.eval(x.Args[1], c)
		if u, ok := m.GoT.Underlying().(*types.Map); ok {
			_, pkey := e.mapKeys(u)
			kt := k.T
			if k.K == KInt {
				kt = e.convertInt(k, u.Key(), c).T
			}
			cur := e.heapGet(c.st, pkey)
			e.heapSet(c.st, pkey, ite("(= "+m.T+" 0)", cur, nestStore(cur, []string{m.T, kt}, "false")))
			e.heapSet(c.st, "ML", "(store "+e.heapGet(c.st, "ML")+" "+m.T+" "+e.newSym("maplen", "Int")+")")
		}
		return Val{K: KUnit}
	case "min", "max":
		acc := e.eval(x.Args[0], c)
		for _, a := range x.Args[1:] {
			b := e.eval(a, c)
			var t types.Type
			acc, b, t = e.unify(acc, b)
			op := token.LSS
			if name == "max" {
				op = token.GTR
			}
			cond := e.binop(op, acc, b, c, x)
			acc = Val{K: acc.K, T: ite(cond.T, acc.T, b.T), GoT: t}
		}
		return acc
	case "clear":
		v := e.eval(x.Args[0], c)
		e.havocPointee(c.st, v)
		if v.K == KRef {
			e.abstract("clear-map", x.Pos())
			e.havocAll(c.st)
		}
		return Val{K: KUnit}
	case "recover":
		e.abstract("recover", x.Pos())
		return Val{K: KRef, T: e.newSym("recovered", "Int")}
	}
	return e.unknownExpr(x, c, "builtin:"+name)
}

func (e *Eng) panicHere(n ast.Node, c *ctx, what string) {
	if !c.spec {
		goal := "false"
		if e.con != nil && len(e.con.MayPanic) > 0 && e.depth == 0 {
			var alts []string
			pc := &ctx{st: c.st, old: e.entry, env: e.entryEnv, spec: true, noOblig: true, pkg: e.pkg, scopePos: n.Pos(), bound: map[string]Val{}}
			for _, m := range e.con.MayPanic {
				alts = append(alts, e.specBool(m.Expr, pc))
			}
			goal = "(or false " + strings.Join(alts, " ") + ")"
		}
		e.oblig("safety:panic", e.site("safety:panic", n), c.st, goal, n.Pos())
	}
	c.st.dead = true
}

func (e *Eng) appendBuiltin(x *ast.CallExpr, c *ctx) Val {
	s := e.eval(x.Args[0], c)
	t := e.info.TypeOf(x)
	sl, ok := t.Underlying().(*types.Slice)
	if !ok {
		return e.unknownExpr(x, c, "append")
	}
	if s.K == KRef { // append(nil, ...)
		s = e.coerce(s, t, c)
	}
	et := sl.Elem()
	var elems []Val
	var spread *Val
	if x.Ellipsis.IsValid() {
		v := e.eval(x.Args[1], c)
		spread = &v
	} else {
		for _, a := range x.Args[1:] {
			elems = append(elems, e.copyVal(c.st, e.coerce(e.eval(a, c), et, c)))
		}
	}
	if spread == nil && len(elems) == 0 {
		return s
	}
	var addLen string
	if spread != nil {
		if spread.K == KStr {
			addLen = "(slen " + spread.T + ")"
		} else {
			addLen = spread.Len
		}
	} else {
		addLen = e.idxLit(int64(len(elems)))
	}
	newLen := e.add(s.Len, addLen)
	fits := e.le(newLen, s.Cap)
	// Outcome A (in place): write at s.Off+s.Len.. in s.Ref. Outcome B: fresh array with copied prefix.
	fresh := e.alloc(c.st, "append")
	newCap := e.newSym("cap", e.idxSort())
	c.st.assume(e.le(newLen, newCap))
	if !e.bv {
		c.st.assume("(<= " + newCap + " 4611686018427387904)")
	}
	ref := ite(fits, s.Ref, fresh)
	off := ite(fits, s.Off, e.idxLit(0))
	cp := ite(fits, s.Cap, newCap)
	for _, cmp := range e.comps(et) {
		key := e.elemBase(et) + cmp
		h := e.heapGet(c.st, key)
		rowSort := strings.TrimSuffix(strings.TrimPrefix(e.heapSort(key), "(Array Int "), ")")
		// fresh row: copy of old contents shifted to offset 0
		fr := e.newSym("approw", rowSort)
		if !e.bv {
			c.st.assume(fmt.Sprintf("(forall ((i Int)) (! (=> (and (<= 0 i) (< i %s)) (= (select %s i) (select (select %s %s) (+ %s i)))) :pattern ((select %s i))))", s.Len, fr, h, s.Ref, s.Off, fr))
		}
		h2 := ite(fits, h, "(store "+h+" "+fresh+" "+fr+")")
		e.heapSet(c.st, key, h2)
	}
	if spread != nil {
		// new elements: row[off+len+i] = src[i]
		for _, cmp := range e.comps(et) {
			key := e.elemBase(et) + cmp
			h := e.heapGet(c.st, key)
			rowSort := strings.TrimSuffix(strings.TrimPrefix(e.heapSort(key), "(Array Int "), ")")
			nr := e.newSym("approw2", rowSort)
			old := "(select " + h + " " + ref + ")"
			var src string
			if spread.K == KStr {
				src = "(sat " + spread.T + " i)"
			} else {
				src = "(select (select " + h + " " + spread.Ref + ") (+ " + spread.Off + " i))"
			}
			if !e.bv {
				c.st.assume(fmt.Sprintf("(forall ((i Int)) (! (=> (and (<= 0 i) (< i %s)) (= (select %s (+ %s %s i)) %s)) :pattern ((select %s (+ %s %s i)))))", addLen, nr, off, s.Len, src, nr, off, s.Len))
				c.st.assume(fmt.Sprintf("(forall ((i Int)) (! (=> (or (< i (+ %s %s)) (>= i (+ %s %s))) (= (select %s i) (select %s i))) :pattern ((select %s i))))", off, s.Len, off, newLen, nr, old, nr))
			}
			e.heapSet(c.st, key, "(store "+h+" "+ref+" "+nr+")")
		}
	} else {
		for i, v := range elems {
			e.storeLoc(c.st, e.elemBase(et), []string{ref, e.add(off, e.add(s.Len, e.idxLit(int64(i))))}, v)
		}
	}
	return Val{K: KSlice, Ref: ref, Off: off, Len: newLen, Cap: cp, GoT: t}
}

func (e *Eng) copyBuiltin(dst, src Val, c *ctx, x *ast.CallExpr) Val {
	intT := types.Typ[types.Int]
	if dst.K != KSlice {
		return e.unknownExpr(x, c, "copy")
	}
	var srcLen string
	if src.K == KStr {
		srcLen = "(slen " + src.T + ")"
	} else if src.K == KSlice {
		srcLen = src.Len
	} else {
		return e.unknownExpr(x, c, "copy")
	}
	n := ite(e.le(dst.Len, srcLen), dst.Len, srcLen)
	et := dst.GoT.Underlying().(*types.Slice).Elem()
	for _, cmp := range e.comps(et) {
		key := e.elemBase(et) + cmp
		h := e.heapGet(c.st, key)
		rowSort := strings.TrimSuffix(strings.TrimPrefix(e.heapSort(key), "(Array Int "), ")")
		nr := e.newSym("copyrow", rowSort)
		old := "(select " + h + " " + dst.Ref + ")"
		var s string
		if src.K == KStr {
			s = "(sat " + src.T + " i)"
		} else {
			s = "(select (select " + h + " " + src.Ref + ") (+ " + src.Off + " i))"
		}
		if !e.bv {
			c.st.assume(fmt.Sprintf("(forall ((i Int)) (! (=> (and (<= 0 i) (< i %s)) (= (select %s (+ %s i)) %s)) :pattern ((select %s (+ %s i)))))", n, nr, dst.Off, s, nr, dst.Off))
			c.st.assume(fmt.Sprintf("(forall ((i Int)) (! (=> (or (< i %s) (>= i (+ %s %s))) (= (select %s i) (select %s i))) :pattern ((select %s i))))", dst.Off, dst.Off, n, nr, old, nr))
		}
		e.heapSet(c.st, key, "(store "+h+" "+dst.Ref+" "+nr+")")
	}
	return Val{K: KInt, T: n, GoT: intT}
}

// mentionsVar reports whether src uses the identifier name as a variable (also as the
// operand of a selector, index or call: "name.f", "name[i]"), but not as a field ("x.name").
func mentionsVar(src, name string) bool {
	isWord := func(b byte) bool {
		return b == '_' || b >= '0' && b <= '9' || b >= 'a' && b <= 'z' || b >= 'A' && b <= 'Z'
	}
	for i := 0; ; {
		j := strings.Index(src[i:], name)
		if j < 0 {
			return false
		}
		j += i
		before := j == 0 || !(isWord(src[j-1]) || src[j-1] == '.')
		after := j+len(name) >= len(src) || !isWord(src[j+len(name)])
		if before && after {
			return true
		}
		i = j + len(name)
	}
}

var rxBinder = regexp.MustCompile(`\b(forall|exists)\s+([A-Za-z_][\w]*(?:\s*,\s*[A-Za-z_][\w]*)*)\s+[^:]+?::`)
