package main

import (
	"go/printer"
	"fmt"
	"go/ast"
	"go/token"
	"go/types"
	"strings"
)

type OutKind int

const (
	Normal OutKind = iota
	Return
	Break
	Continue
	Goto
)

type Out struct {
	st    *State
	kind  OutKind
	rets  []Val
	label string
}

const maxPathsDefault = 400

// numberSites assigns syntactic ordinals to loops, calls and safety sites in source order.
func (e *Eng) numberSites(body *ast.BlockStmt) {
	e.loopOrd = map[ast.Node]int{}
	e.siteOrd = map[ast.Node]int{}
	if e.callOrd == nil {
		e.callOrd = map[ast.Node]int{}
	}
	counts := map[string]int{}
	nCalls := 0
	e.siteName = map[ast.Node]string{}
	seenText := map[string]int{}
	nameIt := func(n ast.Node) {
		var buf strings.Builder
		printer.Fprint(&buf, token.NewFileSet(), n)
		t := strings.Join(strings.Fields(buf.String()), "")
		if len(t) > 56 {
			t = t[:56] + "~"
		}
		k := seenText[t]
		seenText[t]++
		if k > 0 {
			t = fmt.Sprintf("%s.%d", t, k+1)
		}
		e.siteName[n] = t
	}
	ast.Inspect(body, func(n ast.Node) bool {
		switch n.(type) {
		case *ast.CallExpr, *ast.IndexExpr, *ast.SliceExpr, *ast.BinaryExpr, *ast.UnaryExpr, *ast.StarExpr, *ast.SelectorExpr, *ast.TypeAssertExpr, *ast.IncDecStmt, *ast.AssignStmt:
			nameIt(n)
		}
		switch n := n.(type) {
		case *ast.ForStmt, *ast.RangeStmt:
			e.loopOrd[n] = len(e.loopOrd)
		case *ast.CallExpr:
			e.callOrd[n] = nCalls
			nCalls++
			e.siteOrd[n] = counts["call"]
			counts["call"]++
		case *ast.IndexExpr:
			e.siteOrd[n] = counts["index"]
			counts["index"]++
		case *ast.SliceExpr:
			e.siteOrd[n] = counts["slice"]
			counts["slice"]++
		case *ast.BinaryExpr:
			e.siteOrd[n] = counts["bin"]
			counts["bin"]++
		case *ast.UnaryExpr, *ast.StarExpr, *ast.SelectorExpr, *ast.TypeAssertExpr, *ast.IncDecStmt, *ast.AssignStmt:
			e.siteOrd[n] = counts["misc"]
			counts["misc"]++
		}
		return true
	})
}

func (e *Eng) pctx(st *State) *ctx {
	return &ctx{st: st, pkg: e.pkg}
}

func (e *Eng) block(stmts []ast.Stmt, st *State) []Out {
	outs := []Out{{st: st, kind: Normal}}
	for _, s := range stmts {
		var next []Out
		for _, o := range outs {
			if o.kind != Normal || o.st.dead {
				if !o.st.dead {
					next = append(next, o)
				}
				continue
			}
			next = append(next, e.stmt(s, o.st)...)
		}
		outs = next
		for _, o := range outs {
			if !o.st.dead {
				e.nameHeaps(o.st)
			}
		}
		if len(outs) > e.maxPaths() {
			panic(fmt.Sprintf("path explosion: %d paths", len(outs)))
		}
	}
	return outs
}

func (e *Eng) maxPaths() int {
	if e.fi != nil && e.fi.Con != nil && e.fi.Con.MaxPaths > 0 {
		return e.fi.Con.MaxPaths
	}
	return maxPathsDefault
}

// joinNormal merges all Normal outcomes of a branching statement into one.
func (e *Eng) joinNormal(outs []Out, nBase int) []Out {
	var normals, others []Out
	for _, o := range outs {
		if o.st.dead {
			continue
		}
		if o.kind == Normal {
			normals = append(normals, o)
		} else {
			others = append(others, o)
		}
	}
	if len(normals) <= 1 {
		return append(normals, others...)
	}
	for _, n := range normals[1:] {
		if !sameDefers(normals[0].st, n.st) {
			return append(normals, others...)
		}
	}
	st, _ := e.joinOuts(normals, nBase, nil)
	st.defers = normals[0].st.defers
	return append([]Out{{st: st, kind: Normal}}, others...)
}

func (e *Eng) assignTo(lhs ast.Expr, v Val, st *State, define bool) {
	c := e.pctx(st)
	switch l := ast.Unparen(lhs).(type) {
	case *ast.Ident:
		if l.Name == "_" {
			return
		}
		obj := e.info.ObjectOf(l)
		vo, ok := obj.(*types.Var)
		if !ok {
			return
		}
		v = e.coerce(v, vo.Type(), c)
		if isPkgLevel(vo) {
			e.storeGlobal(st, vo, v)
			return
		}
		st.vars[vo] = e.nameTerm(st, v, vo.Name())
	case *ast.IndexExpr:
		base := e.eval(l.X, c)
		idx := e.eval(l.Index, c)
		switch {
		case base.K == KSlice:
			et := base.GoT.Underlying().(*types.Slice).Elem()
			i := e.idxTerm(idx, c)
			e.safety("index", l, c, e.inBounds(i, base.Len))
			e.storeLoc(st, e.elemBase(et), []string{base.Ref, e.add(base.Off, i)}, e.coerce(v, et, c))
		case base.GoT != nil:
			switch u := derefType(base.GoT).Underlying().(type) {
			case *types.Array:
				i := e.idxTerm(idx, c)
				e.safety("index", l, c, e.inBounds(i, e.idxLit(u.Len())))
				e.storeLoc(st, e.elemBase(u.Elem()), []string{base.T, i}, e.coerce(v, u.Elem(), c))
			case *types.Map:
				e.mapStore(base, e.coerce(idx, u.Key(), c), e.coerce(v, u.Elem(), c), u, c, l)
				e.heapSet(st, "ML", "(store "+e.heapGet(st, "ML")+" "+base.T+" "+e.newSym("maplen", "Int")+")")
			default:
				e.abstract("index-assign", l.Pos())
				e.havocAll(st)
			}
		}
	case *ast.SelectorExpr:
		sel, ok := e.info.Selections[l]
		if !ok || sel.Kind() != types.FieldVal {
			// qualified package-level variable
			if vo, ok := e.info.Uses[l.Sel].(*types.Var); ok && isPkgLevel(vo) {
				e.storeGlobal(st, vo, e.coerce(v, vo.Type(), c))
				return
			}
			e.abstract("selector-assign", l.Pos())
			e.havocAll(st)
			return
		}
		base := e.eval(l.X, c)
		idx := sel.Index()
		owner := sel.Recv()
		if len(idx) > 1 {
			base = e.walkFields(base, sel.Recv(), idx[:len(idx)-1], c, l)
			owner = base.GoT
		}
		stt, ok := derefType(owner).Underlying().(*types.Struct)
		if !ok {
			e.abstract("field-assign", l.Pos())
			e.havocAll(st)
			return
		}
		f := stt.Field(idx[len(idx)-1])
		if _, isPtr := owner.Underlying().(*types.Pointer); isPtr {
			e.safety("nil", l, c, "(not (= "+base.T+" 0))")
		}
		fv := e.coerce(v, f.Type(), c)
		switch f.Type().Underlying().(type) {
		case *types.Struct, *types.Array:
			// nested value: copy contents into the existing sub-cell
			sub := e.loadLoc(st, e.fieldBase(f, ownerName(owner)), []string{base.T}, f.Type())
			e.copyInto(st, sub, fv)
			return
		}
		e.storeLoc(st, e.fieldBase(f, ownerName(owner)), []string{base.T}, fv)
	case *ast.StarExpr:
		p := e.eval(l.X, c)
		if p.GoT != nil {
			if pt, ok := p.GoT.Underlying().(*types.Pointer); ok {
				e.safety("nil", l, c, "(not (= "+p.T+" 0))")
				switch pt.Elem().Underlying().(type) {
				case *types.Struct, *types.Array:
					e.copyInto(st, Val{K: KRef, T: p.T, GoT: pt.Elem()}, v)
				default:
					e.storeLoc(st, "P:"+e.elemTag(pt.Elem()), []string{p.T}, e.coerce(v, pt.Elem(), c))
				}
				return
			}
		}
		e.abstract("deref-assign", l.Pos())
		e.havocAll(st)
	default:
		e.abstract("assign-target", lhs.Pos())
		e.havocAll(st)
	}
}

// copyInto overwrites the cell dst with the contents of the cell src.
func (e *Eng) copyInto(st *State, dst, src Val) {
	if dst.GoT == nil {
		return
	}
	switch u := dst.GoT.Underlying().(type) {
	case *types.Struct:
		for i := 0; i < u.NumFields(); i++ {
			f := u.Field(i)
			base := e.fieldBase(f, ownerName(dst.GoT))
			fv := e.loadLoc(st, base, []string{src.T}, f.Type())
			switch f.Type().Underlying().(type) {
			case *types.Struct, *types.Array:
				e.copyInto(st, e.loadLoc(st, base, []string{dst.T}, f.Type()), fv)
			default:
				e.storeLoc(st, base, []string{dst.T}, fv)
			}
		}
	case *types.Array:
		for _, cmp := range e.comps(u.Elem()) {
			key := e.elemBase(u.Elem()) + cmp
			h := e.heapGet(st, key)
			e.heapSet(st, key, "(store "+h+" "+dst.T+" (select "+h+" "+src.T+"))")
		}
	}
}

func (e *Eng) stmt(s ast.Stmt, st *State) []Out {
	one := func() []Out { return []Out{{st: st, kind: Normal}} }
	c := e.pctx(st)
	if e.depth == 0 && e.hookDepth == 0 && e.inDefer == 0 {
		e.curPos = s.Pos()
	}
	switch s := s.(type) {
	case *ast.ExprStmt:
		e.eval(s.X, c)
		return one()
	case *ast.EmptyStmt:
		return one()
	case *ast.DeclStmt:
		gd, ok := s.Decl.(*ast.GenDecl)
		if !ok || gd.Tok != token.VAR {
			return one()
		}
		for _, sp := range gd.Specs {
			vs := sp.(*ast.ValueSpec)
			var vals []Val
			for _, r := range vs.Values {
				v := e.eval(r, c)
				if v.K == KTuple && len(vs.Values) == 1 && len(vs.Names) > 1 {
					vals = append(vals, v.Elts...)
				} else {
					vals = append(vals, v)
				}
			}
			for i, n := range vs.Names {
				obj, _ := e.info.Defs[n].(*types.Var)
				if obj == nil {
					continue
				}
				if i < len(vals) {
					st.vars[obj] = e.copyVal(st, e.coerce(vals[i], obj.Type(), c))
				} else {
					st.vars[obj] = e.zeroVal(obj.Type(), st)
				}
			}
		}
		return one()
	case *ast.AssignStmt:
		return e.assignStmt(s, st)
	case *ast.IncDecStmt:
		cur := e.eval(s.X, c)
		one1 := Val{K: KInt, T: e.intLit(bigOne, cur.GoT), GoT: cur.GoT}
		op := token.ADD
		if s.Tok == token.DEC {
			op = token.SUB
		}
		e.assignTo(s.X, e.binop(op, cur, one1, c, s), st, false)
		return one()
	case *ast.BlockStmt:
		return e.block(s.List, st)
	case *ast.LabeledStmt:
		outs := e.stmt(s.Stmt, st)
		for i := range outs {
			if outs[i].kind == Break && outs[i].label == s.Label.Name {
				outs[i].kind, outs[i].label = Normal, ""
			}
		}
		return outs
	case *ast.IfStmt:
		return e.ifStmt(s, st)
	case *ast.ReturnStmt:
		var vals []Val
		for _, r := range s.Results {
			v := e.eval(r, c)
			if v.K == KTuple && len(s.Results) == 1 {
				vals = append(vals, v.Elts...)
			} else {
				vals = append(vals, v)
			}
		}
		if st.dead {
			return nil
		}
		if len(s.Results) == 0 && len(e.retVars) > 0 {
			for _, o := range e.retVars {
				vals = append(vals, st.vars[o])
			}
		}
		if len(vals) == len(e.curRes) {
			for i := range vals {
				vals[i] = e.copyVal(st, e.coerce(vals[i], e.curRes[i], c))
			}
		}
		return []Out{{st: st, kind: Return, rets: vals}}
	case *ast.BranchStmt:
		lbl := ""
		if s.Label != nil {
			lbl = s.Label.Name
		}
		switch s.Tok {
		case token.CONTINUE:
			return []Out{{st: st, kind: Continue, label: lbl}}
		case token.BREAK:
			return []Out{{st: st, kind: Break, label: lbl}}
		case token.FALLTHROUGH:
			e.abstract("fallthrough", s.Pos())
			return one()
		}
		e.abstract("goto", s.Pos())
		st.dead = true
		return nil
	case *ast.SwitchStmt:
		return e.switchStmt(s, st)
	case *ast.TypeSwitchStmt:
		return e.typeSwitchStmt(s, st)
	case *ast.RangeStmt:
		return e.rangeLoop(s, st)
	case *ast.ForStmt:
		return e.forLoop(s, st)
	case *ast.DeferStmt:
		return e.deferStmt(s, st)
	case *ast.GoStmt:
		e.abstract("go-statement", s.Pos())
		for _, a := range s.Call.Args {
			e.eval(a, c)
		}
		e.havocAll(st)
		return one()
	case *ast.SendStmt, *ast.SelectStmt:
		e.abstract(fmt.Sprintf("stmt:%T", s), s.Pos())
		e.havocStmt(s, st)
		return one()
	}
	e.abstract(fmt.Sprintf("stmt:%T", s), s.Pos())
	e.havocStmt(s, st)
	return one()
}

var bigOne = new(bigInt).SetInt64(1)

func (e *Eng) assignStmt(s *ast.AssignStmt, st *State) []Out {
	c := e.pctx(st)
	if s.Tok == token.ASSIGN || s.Tok == token.DEFINE {
		var vals []Val
		if len(s.Rhs) == 1 && len(s.Lhs) > 1 {
			var v Val
			switch r := ast.Unparen(s.Rhs[0]).(type) {
			case *ast.TypeAssertExpr:
				v = e.evalTypeAssert(r, c, true)
			default:
				v = e.eval(s.Rhs[0], c)
			}
			if v.K == KTuple {
				vals = v.Elts
			} else {
				// unknown multi-value
				for _, l := range s.Lhs {
					vals = append(vals, e.symFor("mv", e.info.TypeOf(l), st))
				}
			}
		} else {
			for _, r := range s.Rhs {
				vals = append(vals, e.eval(r, c))
			}
		}
		if st.dead {
			return nil
		}
		for i, l := range s.Lhs {
			if i < len(vals) {
				e.assignTo(l, e.copyVal(st, vals[i]), st, s.Tok == token.DEFINE)
			}
		}
		return []Out{{st: st, kind: Normal}}
	}
	ops := map[token.Token]token.Token{
		token.ADD_ASSIGN: token.ADD, token.SUB_ASSIGN: token.SUB, token.MUL_ASSIGN: token.MUL, token.QUO_ASSIGN: token.QUO,
		token.REM_ASSIGN: token.REM, token.AND_ASSIGN: token.AND, token.OR_ASSIGN: token.OR, token.XOR_ASSIGN: token.XOR,
		token.SHL_ASSIGN: token.SHL, token.SHR_ASSIGN: token.SHR, token.AND_NOT_ASSIGN: token.AND_NOT,
	}
	cur := e.eval(s.Lhs[0], c)
	r := e.eval(s.Rhs[0], c)
	e.assignTo(s.Lhs[0], e.binop(ops[s.Tok], cur, r, c, s), st, false)
	return []Out{{st: st, kind: Normal}}
}

func (e *Eng) ifStmt(s *ast.IfStmt, st *State) []Out {
	if s.Init != nil {
		outs := e.stmt(s.Init, st)
		if len(outs) != 1 || outs[0].kind != Normal {
			return outs
		}
		st = outs[0].st
	}
	cond := e.eval(s.Cond, e.pctx(st))
	if st.dead {
		return nil
	}
	nBase := len(st.pc)
	t, f := st.clone(), st.clone()
	t.assume(cond.T)
	f.assume(smtNot(cond.T))
	if cond.T == "false" {
		t.dead = true
	}
	if cond.T == "true" {
		f.dead = true
	}
	var outs []Out
	if !t.dead {
		outs = e.block(s.Body.List, t)
	}
	if !f.dead {
		if s.Else != nil {
			outs = append(outs, e.stmt(s.Else, f)...)
		} else {
			outs = append(outs, Out{st: f, kind: Normal})
		}
	}
	return e.joinNormal(outs, nBase)
}

func (e *Eng) switchStmt(s *ast.SwitchStmt, st *State) []Out {
	if s.Init != nil {
		outs := e.stmt(s.Init, st)
		if len(outs) != 1 || outs[0].kind != Normal {
			return outs
		}
		st = outs[0].st
	}
	c := e.pctx(st)
	var tag *Val
	if s.Tag != nil {
		v := e.eval(s.Tag, c)
		tag = &v
	}
	nBase := len(st.pc)
	var outs []Out
	rest := st
	var def *ast.CaseClause
	for _, cc := range s.Body.List {
		cl := cc.(*ast.CaseClause)
		if cl.List == nil {
			def = cl
			continue
		}
		var conds []string
		for _, x := range cl.List {
			v := e.eval(x, e.pctx(rest))
			if tag != nil {
				conds = append(conds, e.binop(token.EQL, *tag, v, e.pctx(rest), x).T)
			} else {
				conds = append(conds, v.T)
			}
		}
		cnd := conds[0]
		if len(conds) > 1 {
			cnd = "(or " + strings.Join(conds, " ") + ")"
		}
		t := rest.clone()
		t.assume(cnd)
		for _, o := range e.block(cl.Body, t) {
			if o.kind == Break && o.label == "" {
				o.kind = Normal
			}
			outs = append(outs, o)
		}
		rest = rest.clone()
		rest.assume(smtNot(cnd))
	}
	if def != nil {
		for _, o := range e.block(def.Body, rest) {
			if o.kind == Break && o.label == "" {
				o.kind = Normal
			}
			outs = append(outs, o)
		}
	} else {
		outs = append(outs, Out{st: rest, kind: Normal})
	}
	return e.joinNormal(outs, nBase)
}

func (e *Eng) typeSwitchStmt(s *ast.TypeSwitchStmt, st *State) []Out {
	if s.Init != nil {
		outs := e.stmt(s.Init, st)
		if len(outs) != 1 || outs[0].kind != Normal {
			return outs
		}
		st = outs[0].st
	}
	var x ast.Expr
	switch a := s.Assign.(type) {
	case *ast.ExprStmt:
		x = a.X.(*ast.TypeAssertExpr).X
	case *ast.AssignStmt:
		x = a.Rhs[0].(*ast.TypeAssertExpr).X
	}
	v := e.eval(x, e.pctx(st))
	e.declOnce("(declare-fun dyntype (Int) Int)")
	nBase := len(st.pc)
	var outs []Out
	rest := st
	var def *ast.CaseClause
	run := func(cl *ast.CaseClause, t *State, single types.Type) {
		if obj := e.info.Implicits[cl]; obj != nil {
			bv := v
			if single != nil {
				bv = e.unboxAs(v, single, e.pctx(t))
			}
			t.vars[obj] = bv
		}
		for _, o := range e.block(cl.Body, t) {
			if o.kind == Break && o.label == "" {
				o.kind = Normal
			}
			outs = append(outs, o)
		}
	}
	for _, cc := range s.Body.List {
		cl := cc.(*ast.CaseClause)
		if cl.List == nil {
			def = cl
			continue
		}
		var conds []string
		var single types.Type
		for _, tx := range cl.List {
			if id, ok := tx.(*ast.Ident); ok && id.Name == "nil" {
				conds = append(conds, "(= "+v.T+" 0)")
				continue
			}
			t := e.info.TypeOf(tx)
			conds = append(conds, e.dynTypeIs(v, t))
			if len(cl.List) == 1 {
				single = t
			}
		}
		cnd := conds[0]
		if len(conds) > 1 {
			cnd = "(or " + strings.Join(conds, " ") + ")"
		}
		t := rest.clone()
		t.assume(cnd)
		run(cl, t, single)
		rest = rest.clone()
		rest.assume(smtNot(cnd))
	}
	if def != nil {
		run(def, rest, nil)
	} else {
		outs = append(outs, Out{st: rest, kind: Normal})
	}
	return e.joinNormal(outs, nBase)
}

func (e *Eng) deferStmt(s *ast.DeferStmt, st *State) []Out {
	c := e.pctx(st)
	d := deferred{call: s.Call}
	if lit, ok := ast.Unparen(s.Call.Fun).(*ast.FuncLit); ok && len(s.Call.Args) == 0 {
		d.lit = lit
	} else {
		// evaluate function value and arguments now
		for _, a := range s.Call.Args {
			d.args = append(d.args, e.eval(a, c))
		}
		if sel, ok := ast.Unparen(s.Call.Fun).(*ast.SelectorExpr); ok {
			if se, ok := e.info.Selections[sel]; ok && se.Kind() == types.MethodVal {
				rv := e.eval(sel.X, c)
				d.fun = Val{K: KRef, Bound: &boundMethod{fn: se.Obj().(*types.Func), recv: &rv}}
			} else {
				d.fun = e.eval(sel, c)
			}
		} else {
			d.fun = e.eval(s.Call.Fun, c)
		}
	}
	st.defers = append(st.defers, d)
	return []Out{{st: st, kind: Normal}}
}

// runDefers executes the deferred calls of a returning path, last in first out.
func (e *Eng) runDefers(st *State) []*State {
	// deferred bodies run at function exit, whatever their source position
	e.inDefer++
	e.curPos = token.Pos(1 << 40)
	defer func() { e.inDefer-- }()
	states := []*State{st}
	for i := len(st.defers) - 1; i >= 0; i-- {
		d := st.defers[i]
		var next []*State
		for _, s := range states {
			if s.dead {
				continue
			}
			if d.lit != nil {
				saved, savedRes := e.retVars, e.curRes
				e.curRes = nil
				for _, o := range e.block(d.lit.Body.List, s) {
					if !o.st.dead {
						next = append(next, o.st)
					}
				}
				e.retVars, e.curRes = saved, savedRes
				continue
			}
			c := e.pctx(s)
			name := "value"
			if id, ok := ast.Unparen(d.call.Fun).(*ast.Ident); ok {
				name = "var:" + id.Name
			}
			if d.fun.Bound != nil {
				var rt types.Type
				if d.fun.Bound.recv != nil {
					rt = d.fun.Bound.recv.GoT
				}
				var resT types.Type
				if sig, ok := d.fun.Bound.fn.Type().(*types.Signature); ok && sig.Results().Len() > 0 {
					resT = sig.Results()
				}
				e.callFunc(d.fun.Bound.fn, d.fun.Bound.recv, rt, d.args, resT, d.call, c)
			} else if d.fun.Lit != nil {
				e.runHooks("before", name, nil, d.args, Val{}, d.call, c)
				e.inlineBody(d.fun.Lit.Type, d.fun.Lit.Body, nil, nil, d.args, nil, c, d.call, "closure")
				e.runHooks("after", name, nil, d.args, Val{}, d.call, c)
			} else {
				e.runHooks("before", name, nil, d.args, Val{}, d.call, c)
				if len(e.hooksFor("before", name))+len(e.hooksFor("after", name)) == 0 {
					e.abstract("deferred-call-of-func-value:"+name, d.call.Pos())
					e.havocAll(s)
				}
				e.runHooks("after", name, nil, d.args, Val{}, d.call, c)
			}
			if !s.dead {
				next = append(next, s)
			}
		}
		states = next
	}
	return states
}

// finishReturns runs deferred calls on returning paths and re-reads named results.
func (e *Eng) finishReturns(outs []Out, rvars []types.Object) []Out {
	var res []Out
	for _, o := range outs {
		if o.st.dead {
			continue
		}
		if o.kind != Return && o.kind != Normal {
			continue
		}
		if len(o.st.defers) == 0 {
			res = append(res, o)
			continue
		}
		// named results are assigned before deferred functions run
		if len(rvars) > 0 && len(o.rets) == len(rvars) {
			for i, rv := range rvars {
				o.st.vars[rv] = e.coerce(o.rets[i], rv.Type(), e.pctx(o.st))
			}
		}
		for _, s := range e.runDefers(o.st) {
			n := Out{st: s, kind: Return, rets: o.rets}
			if len(rvars) > 0 {
				n.rets = nil
				for _, rv := range rvars {
					n.rets = append(n.rets, s.vars[rv])
				}
			}
			s.defers = nil
			res = append(res, n)
		}
	}
	return res
}

// ---- havoc of statements outside the subset and of loop bodies ----

type assignedSet struct {
	vars     map[types.Object]bool
	rows     map[types.Object]bool // slices/arrays whose elements are assigned (by base identifier)
	fields   map[*types.Var]types.Type
	all      bool
	ghosts   map[string]bool
	elemTags map[string]bool
	// leaks: the statements contain an allocation of this function that may
	// be stored into memory (so a reference read back later need not be
	// pre-existing or one of the path's recorded allocations)
	leaks bool
}

func (e *Eng) assignedIn(n ast.Node) *assignedSet {
	a := &assignedSet{vars: map[types.Object]bool{}, rows: map[types.Object]bool{}, fields: map[*types.Var]types.Type{}, ghosts: map[string]bool{}, elemTags: map[string]bool{}}
	var target func(l ast.Expr)
	target = func(l ast.Expr) {
		switch l := ast.Unparen(l).(type) {
		case *ast.Ident:
			if o := e.info.ObjectOf(l); o != nil {
				a.vars[o] = true
			}
		case *ast.IndexExpr:
			if id, ok := ast.Unparen(l.X).(*ast.Ident); ok {
				if o := e.info.ObjectOf(id); o != nil {
					if mt, isMap := o.Type().Underlying().(*types.Map); isMap {
						// a map write: forget the map heaps of that key/value shape
						mkey, pkey := e.mapKeys(mt)
						for _, cmp := range e.comps(mt.Elem()) {
							a.elemTags[mkey+cmp] = true
						}
						a.elemTags[pkey] = true
						a.elemTags["ML"] = true
					} else {
						a.rows[o] = true
					}
					return
				}
			}
			if t := e.info.TypeOf(l.X); t != nil {
				if mt, isMap := t.Underlying().(*types.Map); isMap {
					mkey, pkey := e.mapKeys(mt)
					for _, cmp := range e.comps(mt.Elem()) {
						a.elemTags[mkey+cmp] = true
					}
					a.elemTags[pkey] = true
					a.elemTags["ML"] = true
					return
				}
				// x.f[i] = v, p.q.r[i] = v: some array of that element type is written
				var et types.Type
				switch u := t.Underlying().(type) {
				case *types.Slice:
					et = u.Elem()
				case *types.Array:
					et = u.Elem()
				case *types.Pointer:
					if ar, ok := u.Elem().Underlying().(*types.Array); ok {
						et = ar.Elem()
					}
				}
				if et != nil {
					if _, isStruct := et.Underlying().(*types.Struct); !isStruct {
						for _, cmp := range e.comps(et) {
							a.elemTags[e.elemBase(et)+cmp] = true
						}
						return
					}
				}
			}
			a.all = true
		case *ast.SelectorExpr:
			if sel, ok := e.info.Selections[l]; ok && sel.Kind() == types.FieldVal {
				a.fields[sel.Obj().(*types.Var)] = sel.Recv()
				return
			}
			if o, ok := e.info.Uses[l.Sel].(*types.Var); ok {
				a.vars[o] = true
				return
			}
			a.all = true
		default:
			a.all = true
		}
	}
	ast.Inspect(n, func(n ast.Node) bool {
		switch n := n.(type) {
		case *ast.AssignStmt:
			for _, l := range n.Lhs {
				target(l)
			}
		case *ast.IncDecStmt:
			target(n.X)
		case *ast.RangeStmt:
			if n.Key != nil {
				target(n.Key)
			}
			if n.Value != nil {
				target(n.Value)
			}
		case *ast.UnaryExpr:
			if n.Op == token.AND {
				if id, ok := ast.Unparen(n.X).(*ast.Ident); ok {
					if o := e.info.ObjectOf(id); o != nil {
						a.vars[o] = true
					}
				}
			}
		case *ast.CallExpr:
			if !e.callIsEffectFree(n, a) {
				a.all = true
			}
			if e.callAllocates(n) {
				a.leaks = true
			}
		case *ast.CompositeLit:
			if t := e.info.TypeOf(n); t != nil {
				switch t.Underlying().(type) {
				case *types.Slice, *types.Map:
					a.leaks = true
				}
			}
		case *ast.FuncLit:
			if !e.litOnlyCalled(n) {
				a.leaks = true
			}
		case *ast.GoStmt, *ast.SendStmt, *ast.SelectStmt:
			a.all = true
			a.leaks = true
		}
		return true
	})
	return a
}

// callAllocates: new, make, conversions to slices, append to a slice this
// function does not own, and inlined callees that allocate.
func (e *Eng) callAllocates(x *ast.CallExpr) bool {
	if tv, ok := e.info.Types[x.Fun]; ok && tv.IsType() {
		_, isSlice := tv.Type.Underlying().(*types.Slice)
		return isSlice
	}
	if id := identOf(ast.Unparen(x.Fun)); id != nil {
		if b, ok := e.info.Uses[id].(*types.Builtin); ok {
			switch b.Name() {
			case "new", "make":
				return true
			case "append":
				if len(x.Args) > 0 {
					if a0, ok := ast.Unparen(x.Args[0]).(*ast.Ident); ok {
						if o := e.info.ObjectOf(a0); o != nil && e.owned[o] {
							return false
						}
					}
				}
				return true
			}
			return false
		}
		if fn, ok := e.info.Uses[id].(*types.Func); ok {
			if fi := e.u.byObj[fn.Origin()]; fi != nil && fi.Decl != nil && fi.Decl.Body != nil {
				if (fi.Con != nil && fi.Con.Inline) || (fi.Con == nil && e.autoInline(fi)) {
					if e.leakScan == nil {
						e.leakScan = map[*FuncInfo]bool{}
					}
					if e.leakScan[fi] {
						return true
					}
					e.leakScan[fi] = true
					sub := (&Eng{u: e.u, info: fi.Pkg.TypesInfo, pkg: fi.Pkg, fi: fi, leakScan: e.leakScan}).assignedIn(fi.Decl.Body)
					delete(e.leakScan, fi)
					return sub.leaks
				}
			}
		}
	}
	return false
}

// litOnlyCalled: the function literal is bound once to a local variable which
// is never used except as the target of a call.
func (e *Eng) litOnlyCalled(lit *ast.FuncLit) bool {
	if e.fi == nil || e.fi.Decl == nil || e.fi.Decl.Body == nil {
		return false
	}
	var v *types.Var
	ast.Inspect(e.fi.Decl.Body, func(nd ast.Node) bool {
		if s, ok := nd.(*ast.AssignStmt); ok && len(s.Lhs) == len(s.Rhs) {
			for i, r := range s.Rhs {
				if ast.Unparen(r) == ast.Expr(lit) {
					if id, ok := s.Lhs[i].(*ast.Ident); ok {
						v, _ = e.info.ObjectOf(id).(*types.Var)
					}
				}
			}
		}
		return true
	})
	if v == nil || e.soleFuncLit(v) != lit {
		return false
	}
	called := map[*ast.Ident]bool{}
	ast.Inspect(e.fi.Decl.Body, func(nd ast.Node) bool {
		if c, ok := nd.(*ast.CallExpr); ok {
			if id, ok := ast.Unparen(c.Fun).(*ast.Ident); ok {
				called[id] = true
			}
		}
		return true
	})
	ok := true
	ast.Inspect(e.fi.Decl.Body, func(nd ast.Node) bool {
		if id, isID := nd.(*ast.Ident); isID && e.info.Uses[id] == types.Object(v) && !called[id] {
			ok = false
		}
		return true
	})
	return ok
}

// callIsEffectFree reports whether a call cannot modify the Go heap (as far as
// contracts and assumed effects say); writes of contracted callees are added to a.
func (e *Eng) callIsEffectFree(x *ast.CallExpr, a *assignedSet) bool {
	if tv, ok := e.info.Types[x.Fun]; ok && tv.IsType() {
		return true
	}
	fun := ast.Unparen(x.Fun)
	if id := identOf(fun); id != nil {
		if b, ok := e.info.Uses[id].(*types.Builtin); ok {
			switch b.Name() {
			case "len", "cap", "panic", "print", "println", "make", "new", "min", "max":
				return true
			case "append":
				// may write into the backing array of the first argument
				if len(x.Args) > 0 {
					if id, ok := ast.Unparen(x.Args[0]).(*ast.Ident); ok {
						if o := e.info.ObjectOf(id); o != nil {
							a.rows[o] = true
							return true
						}
					}
					if tv, ok := e.info.Types[x.Args[0]]; ok && tv.IsNil() {
						return true
					}
				}
				return false
			case "copy":
				if id, ok := ast.Unparen(x.Args[0]).(*ast.Ident); ok {
					if o := e.info.ObjectOf(id); o != nil {
						a.rows[o] = true
						return true
					}
				}
				return false
			}
			return false
		}
	}
	var fn *types.Func
	var recvT types.Type
	switch f := fun.(type) {
	case *ast.Ident:
		fn, _ = e.info.Uses[f].(*types.Func)
	case *ast.SelectorExpr:
		if sel, ok := e.info.Selections[f]; ok {
			if sel.Kind() == types.MethodVal {
				fn, _ = sel.Obj().(*types.Func)
				recvT = e.info.TypeOf(f.X)
			}
		} else {
			fn, _ = e.info.Uses[f.Sel].(*types.Func)
		}
	}
	if fn == nil {
		// a local closure variable with a single definition: its body's writes
		if id, ok := fun.(*ast.Ident); ok {
			if v, ok := e.info.Uses[id].(*types.Var); ok && !isPkgLevel(v) {
				if lit := e.soleFuncLit(v); lit != nil && !e.litScan[lit] {
					if e.litScan == nil {
						e.litScan = map[*ast.FuncLit]bool{}
					}
					e.litScan[lit] = true
					sub := e.assignedIn(lit.Body)
					delete(e.litScan, lit)
					if sub.all {
						return false
					}
					for o := range sub.vars {
						a.vars[o] = true
					}
					for o := range sub.rows {
						a.rows[o] = true
					}
					for f, t := range sub.fields {
						a.fields[f] = t
					}
					for g := range sub.ghosts {
						a.ghosts[g] = true
					}
					for g := range sub.elemTags {
						a.elemTags[g] = true
					}
					return true
				}
			}
		}
		// func value: hooks only
		return false
	}
	name := calleeName(fn, recvT)
	if fi := e.u.byObj[fn.Origin()]; fi != nil {
		if fi.Con != nil {
			for _, g := range e.u.cs.Ghosts {
				for _, en := range fi.Con.Ensures {
					if containsWord(en.Src, g.Name) {
						a.ghosts[g.Name] = true
					}
				}
			}
			if fi.Con.Pure {
				return true
			}
			if fi.Con.Inline {
				sub := (&Eng{u: e.u, info: fi.Pkg.TypesInfo, pkg: fi.Pkg}).assignedIn(fi.Decl.Body)
				if sub.all {
					return false
				}
				for o := range sub.vars {
					if v, ok := o.(*types.Var); ok && isPkgLevel(v) {
						a.vars[o] = true
					}
				}
				for f, t := range sub.fields {
					a.fields[f] = t
				}
				for o := range sub.rows {
					if v, ok := o.(*types.Var); ok && isPkgLevel(v) {
						a.rows[o] = true
					} else {
						return false
					}
				}
				return true
			}
			if fi.Con.HasAssign {
				for _, it := range fi.Con.Assigns {
					switch {
					case it == "*":
						return false
					case it == "nothing":
					case strings.HasPrefix(it, "ghost "):
						a.ghosts[strings.TrimSpace(it[6:])] = true
					case strings.HasPrefix(it, "elems(") || strings.HasPrefix(it, "fields(") || strings.HasPrefix(it, "pointee("):
						return false
					default:
						if i := strings.Index(it, "."); i > 0 {
							// Type.field: the whole field family
							if tn, ok := fi.Pkg.Types.Scope().Lookup(it[:i]).(*types.TypeName); ok {
								if s, ok := tn.Type().Underlying().(*types.Struct); ok {
									found := false
									for j := 0; j < s.NumFields(); j++ {
										if s.Field(j).Name() == it[i+1:] {
											a.fields[s.Field(j)] = tn.Type()
											found = true
										}
									}
									if found {
										continue
									}
								}
							}
							return false
						}
						if gv, ok := fi.Pkg.Types.Scope().Lookup(it).(*types.Var); ok {
							switch gv.Type().Underlying().(type) {
							case *types.Array:
								a.rows[gv] = true
							case *types.Struct:
								return false
							default:
								a.vars[gv] = true
							}
						} else {
							return false
						}
					}
				}
				return true
			}
			return false
		}
		if e.autoInline(fi) {
			return true
		}
		return false
	}
	if con := e.u.cs.Externs[name]; con != nil {
		if con.Effect == "havoc" {
			return false
		}
		// parameters whose pointee is overwritten: the argument must be a plain
		// variable (or its address) for the write to be tracked precisely
		all := x.Args
		if sel, ok := fun.(*ast.SelectorExpr); ok {
			if _, isSel := e.info.Selections[sel]; isSel {
				all = append([]ast.Expr{sel.X}, x.Args...)
			}
		}
		for _, w := range con.Writes {
			idx := -1
			for i, p := range con.Params {
				if p == w {
					idx = i
				}
			}
			if idx < 0 || idx >= len(all) {
				return false
			}
			arg := ast.Unparen(all[idx])
			if u, ok := arg.(*ast.UnaryExpr); ok && u.Op == token.AND {
				arg = ast.Unparen(u.X)
			}
			if sl, ok := arg.(*ast.SliceExpr); ok {
				arg = ast.Unparen(sl.X)
			}
			id, ok := arg.(*ast.Ident)
			if !ok {
				return false
			}
			o := e.info.ObjectOf(id)
			if o == nil {
				return false
			}
			switch o.Type().Underlying().(type) {
			case *types.Slice, *types.Array:
				a.rows[o] = true
			default:
				a.vars[o] = true
			}
		}
		return true
	}
	pkgPath := ""
	if fn.Pkg() != nil {
		pkgPath = fn.Pkg().Path()
	}
	return e.u.cs.PureFuncs[name] || e.u.cs.PurePkgs[pkgPath] || e.u.cs.IOFuncs[name]
}

func (e *Eng) havocSet(a *assignedSet, st *State) {
	e.havocGroup(st, func() { e.havocSet1(a, st) })
}

func (e *Eng) havocSet1(a *assignedSet, st *State) {
	if a.all {
		e.havocAll(st)
	}
	if a.leaks {
		st.tainted = true
	}
	before := map[types.Object]Val{}
	for o := range a.rows {
		if cur, ok := st.vars[o]; ok {
			before[o] = cur
		}
	}
	var havocked []Val
	for o := range a.vars {
		vo, ok := o.(*types.Var)
		if !ok {
			continue
		}
		if isPkgLevel(vo) {
			switch vo.Type().Underlying().(type) {
			case *types.Struct, *types.Array:
				e.havocPointee(st, e.loadGlobal(st, vo))
			default:
				for _, cmp := range e.comps(vo.Type()) {
					e.heapHavoc(st, e.globalBase(vo)+cmp)
				}
			}
			continue
		}
		if old, ok := st.vars[o]; ok {
			nv := e.symFor(o.Name(), o.Type(), st)
			if nv.K == KSlice && e.owned[o] {
				// nil or allocated by this function: never a caller's array
				st.assume("(<= " + nv.Ref + " 0)")
			}
			switch o.Type().Underlying().(type) {
			case *types.Struct, *types.Array:
				// value cells keep their identity; contents are forgotten
				e.havocPointee(st, old)
				nv = old
			}
			st.vars[o] = nv
			havocked = append(havocked, nv)
		}
	}
	defer func() {
		// whatever the forgotten locals refer to exists now (allocation frontier, engine.go)
		if noFrontier {
			return
		}
		for _, v := range havocked {
			switch v.K {
			case KRef:
				if !isLiteralTerm(v.T) {
					st.assume("(>= " + v.T + " " + st.front() + ")")
				}
			case KSlice:
				st.assume("(>= " + v.Ref + " " + st.front() + ")")
			}
		}
	}()
	if !a.all {
		for o := range a.rows {
			var v Val
			if vo, ok := o.(*types.Var); ok && isPkgLevel(vo) {
				v = e.loadGlobal(st, vo)
			} else if cur, ok := st.vars[o]; ok {
				v = cur
			} else {
				continue
			}
			if a.vars[o] && v.K == KSlice {
				// the slice variable itself is reassigned in the loop
				var et types.Type = types.Typ[types.Uint8]
				if s, ok := o.Type().Underlying().(*types.Slice); ok {
					et = s.Elem()
				}
				old, haveOld := before[o]
				for _, cmp := range e.comps(et) {
					key := e.elemBase(et) + cmp
					if e.owned[o] && haveOld {
						// an owned slice (nil, make, append to itself): the loop can only write the
						// array it had on entry or arrays allocated inside the loop; every other
						// array that existed before the loop keeps its contents
						oldH := e.heapGet(st, key)
						e.heapHavoc(st, key)
						newH := st.heap[key]
						pre := []string{"(>= r 0)"}
						for _, al := range st.allocs {
							pre = append(pre, "(= r "+al+")")
						}
						for _, al := range st.known {
							pre = append(pre, "(= r "+al+")")
						}
						st.assume(fmt.Sprintf("(forall ((r Int)) (! (=> (and (not (= r %s)) (or %s)) (= (select %s r) (select %s r))) :pattern ((select %s r))))",
							old.Ref, strings.Join(pre, " "), newH, oldH, newH))
						continue
					}
					e.heapHavoc(st, key)
				}
				continue
			}
			e.havocPointee(st, v)
		}
		for f, owner := range a.fields {
			for _, cmp := range e.comps(f.Type()) {
				e.heapHavoc(st, e.fieldBase(f, ownerName(owner))+cmp)
			}
		}
	}
	for g := range a.ghosts {
		if v, ok := st.ghost[g]; ok {
			st.ghost[g] = e.freshGhost(g, v, st)
		}
	}
	if !a.all {
		for _, k := range sortStrings(a.elemTags) {
			e.heapHavoc(st, k)
		}
	}
}

func (e *Eng) havocStmt(s ast.Node, st *State) {
	e.havocSet(e.assignedIn(s), st)
}

// soleFuncLit returns the function literal a local variable is bound to when
// that binding is its only assignment in the function under verification.
func (e *Eng) soleFuncLit(v *types.Var) *ast.FuncLit {
	if e.fi == nil || e.fi.Decl == nil || e.fi.Decl.Body == nil {
		return nil
	}
	var lit *ast.FuncLit
	n := 0
	ast.Inspect(e.fi.Decl.Body, func(nd ast.Node) bool {
		switch s := nd.(type) {
		case *ast.AssignStmt:
			for i, l := range s.Lhs {
				if id, ok := l.(*ast.Ident); ok && e.info.ObjectOf(id) == v {
					n++
					if len(s.Lhs) == len(s.Rhs) {
						lit, _ = ast.Unparen(s.Rhs[i]).(*ast.FuncLit)
					}
				}
			}
		case *ast.ValueSpec:
			for i, id := range s.Names {
				if e.info.ObjectOf(id) == v {
					n++
					if i < len(s.Values) {
						lit, _ = ast.Unparen(s.Values[i]).(*ast.FuncLit)
					}
				}
			}
		case *ast.UnaryExpr:
			if id, ok := ast.Unparen(s.X).(*ast.Ident); ok && s.Op == token.AND && e.info.ObjectOf(id) == v {
				n += 2
			}
		}
		return true
	})
	if n != 1 {
		return nil
	}
	return lit
}
