package main

import (
	"bytes"
	"context"
	"fmt"
	"os"
	"os/exec"
	"path/filepath"
	"sort"
	"strings"
	"runtime"
	"strconv"
	"sync"
	"time"
)

const preludeInt = `(set-logic ALL)
(declare-sort Str 0)
(declare-fun slen (Str) Int)
(declare-fun sat (Str Int) Int)
(declare-fun scat (Str Str) Str)
(declare-fun ssub (Str Int Int) Str)
(declare-fun slt (Str Str) Bool)
(declare-const str.empty Str)
(assert (= (slen str.empty) 0))
(assert (forall ((s Str)) (! (>= (slen s) 0) :pattern ((slen s)))))
(assert (forall ((s Str)) (! (=> (= (slen s) 0) (= s str.empty)) :pattern ((slen s)))))
(assert (forall ((s Str) (i Int)) (! (and (<= 0 (sat s i)) (<= (sat s i) 255)) :pattern ((sat s i)))))
(assert (forall ((a Str) (b Str)) (! (= (slen (scat a b)) (+ (slen a) (slen b))) :pattern ((scat a b)))))
(assert (forall ((a Str) (b Str) (i Int)) (! (= (sat (scat a b) i) (ite (< i (slen a)) (sat a i) (sat b (- i (slen a))))) :pattern ((sat (scat a b) i)))))
(assert (forall ((a Str)) (! (= (scat a str.empty) a) :pattern ((scat a str.empty)))))
(assert (forall ((a Str)) (! (= (scat str.empty a) a) :pattern ((scat str.empty a)))))
(assert (forall ((s Str) (lo Int) (hi Int)) (! (=> (and (<= 0 lo) (<= lo hi) (<= hi (slen s))) (= (slen (ssub s lo hi)) (- hi lo))) :pattern ((ssub s lo hi)))))
(assert (forall ((s Str) (lo Int) (hi Int) (i Int)) (! (=> (and (<= 0 lo) (<= 0 i) (< i (- hi lo))) (= (sat (ssub s lo hi) i) (sat s (+ lo i)))) :pattern ((sat (ssub s lo hi) i)))))
(define-fun go_div ((a Int) (b Int)) Int (ite (>= a 0) (ite (> b 0) (div a b) (- (div a (- b)))) (ite (> b 0) (- (div (- a) b)) (div (- a) (- b)))))
(define-fun go_rem ((a Int) (b Int)) Int (- a (* b (go_div a b))))
(declare-fun dyntype (Int) Int)
(declare-fun sofb ((Array Int Int) Int Int) Str)
(declare-fun bofs (Str) (Array Int Int))
(assert (forall ((s Str) (i Int)) (! (= (select (bofs s) i) (sat s i)) :pattern ((select (bofs s) i)))))
(assert (forall ((s Str)) (! (= (sofb (bofs s) 0 (slen s)) s) :pattern ((bofs s)))))
`

const preludeBV = `(set-logic ALL)
(declare-sort Str 0)
(declare-fun slen (Str) (_ BitVec 64))
(declare-fun sat (Str (_ BitVec 64)) (_ BitVec 8))
(declare-fun scat (Str Str) Str)
(declare-fun ssub (Str (_ BitVec 64) (_ BitVec 64)) Str)
(declare-fun slt (Str Str) Bool)
(declare-const str.empty Str)
(assert (= (slen str.empty) (_ bv0 64)))
(assert (forall ((s Str)) (! (bvule (slen s) #x0000000000ffffff) :pattern ((slen s)))))
(declare-fun dyntype (Int) Int)
`

func prelude(bv bool) string {
	if bv {
		return preludeBV
	}
	return preludeInt
}

type Result struct {
	Obl     *Obl
	Status  string // unsat | sat | unknown | timeout | error
	Solver  string
	Secs    float64
	File    string
	Output  string
	Model   string
	Agree   int // number of solvers answering unsat (thorough)
	Tried   []string
	AllSecs float64
}

type solverCfg struct {
	name string
	args func(timeout int, file string) []string
}

var solvers = []solverCfg{
	{"z3-new", func(t int, f string) []string { return []string{fmt.Sprintf("-T:%d", t), f} }},
	{"cvc5", func(t int, f string) []string { return []string{fmt.Sprintf("--tlimit=%d", t*1000), f} }},
	{"z3", func(t int, f string) []string { return []string{fmt.Sprintf("-T:%d", t), f} }},
}

func (u *Universe) specText(files []string) string {
	var b strings.Builder
	for _, f := range files {
		data, err := os.ReadFile(filepath.Join(u.verif, "contracts", "spec", f))
		if err != nil {
			panic(err)
		}
		b.WriteString("; ---- spec " + f + "\n")
		b.Write(data)
		b.WriteString("\n")
	}
	return b.String()
}

func (u *Universe) oblText(o *Obl, withModel bool) string {
	var b strings.Builder
	if withModel {
		b.WriteString("(set-option :produce-models true)\n")
	}
	b.WriteString(prelude(o.BV))
	spec := u.specText(o.Spec)
	lits := append([]string(nil), o.Lits...)
	for _, t := range sexprTokens(spec) {
		if l, ok := litFromName(t); ok {
			lits = append(lits, l)
		}
	}
	for _, d := range o.Decls {
		if strings.Contains(d, "|\"") {
			for _, t := range sexprTokens(d) {
				if l, ok := litFromName(t); ok {
					lits = append(lits, l)
				}
			}
		}
	}
	b.WriteString("; ---- string literals\n")
	b.WriteString(litDecls(lits, o.BV))
	b.WriteString(spec)
	b.WriteString("; ---- declarations\n")
	for _, d := range o.Decls {
		b.WriteString(d)
		b.WriteString("\n")
	}
	b.WriteString("; ---- path condition of " + o.Name + " @ " + o.Pos + "\n")
	for _, p := range o.PC {
		b.WriteString("(assert " + normalizeFormula(p) + ")\n")
	}
	if o.Expect == "sat" {
		b.WriteString("; ---- cover: the above must be satisfiable\n")
	} else {
		b.WriteString("; ---- negated goal\n(assert (not " + normalizeFormula(o.Goal) + "))\n")
	}
	b.WriteString("(check-sat)\n")
	if withModel {
		b.WriteString("(get-model)\n")
	}
	return b.String()
}

// loadScale stretches every solver budget when the machine is busy: the
// budgets are wall-clock, and an obligation that needs 1 s of CPU must not be
// reported as undischarged because forty other processes share the cores.
var loadScaleOnce sync.Once
var loadScaleVal = 1

func loadScale() int {
	loadScaleOnce.Do(func() {
		data, err := os.ReadFile("/proc/loadavg")
		if err != nil {
			return
		}
		f := strings.Fields(string(data))
		if len(f) == 0 {
			return
		}
		l, err := strconv.ParseFloat(f[0], 64)
		if err != nil {
			return
		}
		n := float64(runtime.NumCPU())
		k := int(l/n + 0.999)
		if k < 1 {
			k = 1
		}
		if k > 6 {
			k = 6
		}
		loadScaleVal = k
	})
	return loadScaleVal
}

func runSolver(s solverCfg, timeout int, file string) (string, string, float64) {
	timeout *= loadScale()
	ctx, cancel := context.WithTimeout(context.Background(), time.Duration(timeout+3)*time.Second)
	defer cancel()
	t0 := time.Now()
	cmd := exec.CommandContext(ctx, s.name, s.args(timeout, file)...)
	var out bytes.Buffer
	cmd.Stdout = &out
	cmd.Stderr = &out
	_ = cmd.Run()
	secs := time.Since(t0).Seconds()
	text := out.String()
	line := ""
	for _, l := range strings.Split(text, "\n") {
		l = strings.TrimSpace(l)
		if l == "" || strings.HasPrefix(l, "WARNING") {
			continue // e.g. z3: 'if' cannot be used in patterns
		}
		line = l
		break
	}
	switch line {
	case "unsat", "sat", "unknown":
		return line, text, secs
	case "timeout":
		return "timeout", text, secs
	}
	if ctx.Err() != nil || strings.Contains(text, "timeout") || strings.Contains(text, "interrupted") {
		return "timeout", text, secs
	}
	return "error", text, secs
}

// discharge decides one obligation by racing the solvers (sequentially by
// preference, so that 16 obligations can run in parallel).
func (u *Universe) discharge(o *Obl, dir string, idx int, timeout int, needTwo bool) *Result {
	file := filepath.Join(dir, fmt.Sprintf("o%05d.smt2", idx))
	if err := os.WriteFile(file, []byte(u.oblText(o, false)), 0o644); err != nil {
		return &Result{Obl: o, Status: "error", Output: err.Error()}
	}
	r := &Result{Obl: o, File: file, Status: "unknown"}
	if o.Quick {
		timeout, needTwo = 2, false
	}
	if o.Expect == "sat" {
		// vacuity cover: only a definite unsat matters; do not spend time on a model
		st, out, secs := runSolver(solvers[0], 2, file)
		r.Status, r.Solver, r.Secs, r.AllSecs, r.Output = st, solvers[0].name, secs, secs, firstLines(out, 3)
		r.Tried = append(r.Tried, fmt.Sprintf("%s=%s(%.2fs)", solvers[0].name, st, secs))
		return r
	}
	// Step 1: the whole obligation, briefly (most discharge in a fraction of a second).
	if st, out, secs := runSolver(solvers[0], 2, file); st == "unsat" || st == "sat" {
		r.AllSecs += secs
		r.Tried = append(r.Tried, fmt.Sprintf("%s=%s(%.2fs)", solvers[0].name, st, secs))
		if st == "sat" {
			r.Status, r.Solver, r.Secs, r.Output = "sat", solvers[0].name, secs, out
			return r
		}
		r.Agree++
		r.Status, r.Solver, r.Secs = "unsat", solvers[0].name, secs
		if !needTwo {
			return r
		}
	} else {
		r.AllSecs += secs
		r.Tried = append(r.Tried, fmt.Sprintf("%s=%s(%.2fs)", solvers[0].name, st, secs))
	}
	// Step 2: the cone of influence of the goal only: dropping hypotheses is
	// sound for a proof, and large irrelevant prefixes drown the solvers.
	if po := pruneObl(o); po != nil && r.Status != "unsat" {
		pfile := filepath.Join(dir, fmt.Sprintf("p%05d.smt2", idx))
		if err := os.WriteFile(pfile, []byte(u.oblText(po, false)), 0o644); err == nil {
			for _, s := range solvers[:2] {
				pt := timeout / 2
				if pt < 3 {
					pt = 3
				}
				st, _, secs := runSolver(s, pt, pfile)
				r.AllSecs += secs
				r.Tried = append(r.Tried, fmt.Sprintf("%s[pruned]=%s(%.2fs)", s.name, st, secs))
				if st == "unsat" {
					r.Agree++
					r.Status, r.Solver, r.Secs = "unsat", s.name+"[pruned]", secs
					if !needTwo || r.Agree >= 2 {
						return r
					}
				}
			}
		}
	}
	for _, s := range solvers {
		if r.Status == "unsat" && strings.TrimSuffix(r.Solver, "[pruned]") == s.name {
			continue // this solver already answered
		}
		st, out, secs := runSolver(s, timeout, file)
		r.AllSecs += secs
		r.Tried = append(r.Tried, fmt.Sprintf("%s=%s(%.2fs)", s.name, st, secs))
		switch st {
		case "unsat":
			r.Agree++
			if r.Status != "unsat" {
				r.Status, r.Solver, r.Secs = "unsat", s.name, secs
			}
			if !needTwo || r.Agree >= 2 {
				return r
			}
		case "sat":
			if r.Agree > 0 {
				// solvers disagree: report as error, never as discharged
				r.Status, r.Output = "error", "solver disagreement: "+strings.Join(r.Tried, " ")
				return r
			}
			r.Status, r.Solver, r.Secs, r.Output = "sat", s.name, secs, out
			return r
		case "error":
			if r.Output == "" {
				r.Output = s.name + ": " + firstLines(out, 5)
			}
			if r.Status == "unknown" && len(r.Tried) == 1 {
				r.Status = "error"
			}
		default:
			if r.Status != "unsat" {
				r.Status = st
			}
		}
	}
	return r
}

func firstLines(s string, n int) string {
	l := strings.Split(s, "\n")
	if len(l) > n {
		l = l[:n]
	}
	return strings.Join(l, "\n")
}

// getModel re-runs a refuted obligation asking for a model.
func (u *Universe) getModel(o *Obl, dir string, idx int, timeout int) string {
	file := filepath.Join(dir, fmt.Sprintf("m%05d.smt2", idx))
	if err := os.WriteFile(file, []byte(u.oblText(o, true)), 0o644); err != nil {
		return ""
	}
	for _, s := range solvers {
		if s.name == "cvc5" {
			continue
		}
		st, out, _ := runSolver(s, timeout, file)
		if st == "sat" {
			return out
		}
	}
	return ""
}

func (u *Universe) dischargeAll(obls []*Obl, dir string, timeout int, needTwo bool, workers int) []*Result {
	res := make([]*Result, len(obls))
	var wg sync.WaitGroup
	ch := make(chan int)
	for w := 0; w < workers; w++ {
		wg.Add(1)
		go func() {
			defer wg.Done()
			for i := range ch {
				res[i] = u.discharge(obls[i], dir, i, timeout, needTwo)
			}
		}()
	}
	for i := range obls {
		ch <- i
	}
	close(ch)
	wg.Wait()
	return res
}

// dedupe removes obligations with identical text.
func dedupe(obls []*Obl) []*Obl {
	seen := map[string]bool{}
	var out []*Obl
	for _, o := range obls {
		k := o.Name + "\x00" + o.Goal + "\x00" + strings.Join(o.PC, "\x01") + "\x00" + o.Expect
		if seen[k] {
			continue
		}
		seen[k] = true
		out = append(out, o)
	}
	sort.SliceStable(out, func(i, j int) bool { return out[i].Name < out[j].Name })
	return out
}
