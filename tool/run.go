package main

import (
	"os"
	"fmt"
	"go/ast"
	"go/types"
	"runtime/debug"
	"sort"
	"strings"
)

type FuncReport struct {
	Name       string   `json:"name"`
	File       string   `json:"file"`
	Paths      int      `json:"return_paths"`
	IntMode    string   `json:"int_mode"`
	Abstracted []string `json:"abstracted,omitempty"`
	Inlined    []string `json:"inlined,omitempty"`
	Assumed    []string `json:"assumed,omitempty"`
	Obls       int      `json:"obligations"`
	Error      string   `json:"error,omitempty"`
	Trusted    string   `json:"trusted,omitempty"`
	Unclaimed  []string `json:"unproved_not_claimed,omitempty"`
}

// verifyFunc generates the obligations of one function under contract.
func (u *Universe) verifyFunc(fi *FuncInfo) (obls []*Obl, rep FuncReport) {
	con := fi.Con
	name := shortName(fi.Pkg.PkgPath + "." + fi.Key)
	if !strings.Contains(name, ".") || fi.Pkg.PkgPath == garblePath {
		name = "main." + fi.Key
	}
	pos := u.fset.Position(fi.Decl.Pos())
	rep = FuncReport{Name: name, File: fmt.Sprintf("%s:%d", pos.Filename, pos.Line), IntMode: "int"}
	if con.NoBody {
		rep.Trusted = con.Reason
		return nil, rep
	}
	e := &Eng{u: u, pkg: fi.Pkg, info: fi.Pkg.TypesInfo, fset: u.fset, fi: fi, con: con, curFnName: name}
	e.bv = con.IntMode == "bv"
	if e.bv {
		rep.IntMode = "bv"
	}
	e.specFiles = con.Spec
	defer func() {
		if r := recover(); r != nil {
			rep.Error = fmt.Sprintf("%v", r)
			if strings.Contains(rep.Error, "runtime error") || os.Getenv("GOVC_STACK") != "" {
				rep.Error += "\n" + string(debug.Stack())
			}
			obls = nil
		}
	}()
	// a global ghost variable must not share its name with a variable of the function: hook
	// bodies are evaluated in the scope of the call site, where the ghost would win silently
	{
		gh := map[string]bool{}
		for _, g := range u.cs.Ghosts {
			gh[g.Name] = true
		}
		var clash []string
		ast.Inspect(fi.Decl, func(n ast.Node) bool {
			if id, ok := n.(*ast.Ident); ok && gh[id.Name] {
				if obj := fi.Pkg.TypesInfo.Defs[id]; obj != nil {
					if _, isVar := obj.(*types.Var); isVar {
						clash = append(clash, id.Name)
					}
				}
			}
			return true
		})
		if len(clash) > 0 && len(con.UseHooks) > 0 {
			active := map[string]bool{}
			for _, hs := range con.UseHooks {
				active[hs] = true
			}
			for _, c := range clash {
				for _, h := range u.cs.Hooks {
					if active[h.Set] && (containsWord(h.Src, c) || mentionsVar(h.Src, c)) {
						panic(fmt.Sprintf("contract: ghost variable %q, used by hook set %q, has the name of a variable of %s", c, h.Set, name))
					}
				}
			}
		}
	}
	e.numberSites(fi.Decl.Body)
	e.owned = e.ownedSlices(fi.Decl.Body)
	e.privUntil = e.privateUntil(fi.Decl.Body)
	st := newState()
	assigned := e.assignedIn(fi.Decl.Body)
	e.entryEnv = map[string]Val{}
	bind := func(fl *ast.FieldList) {
		if fl == nil {
			return
		}
		for _, f := range fl.List {
			for _, n := range f.Names {
				obj, _ := e.info.Defs[n].(*types.Var)
				if obj == nil {
					continue
				}
				v := e.symFor(n.Name, obj.Type(), st)
				if v.K == KRef {
					// references handed in by the caller are not fresh allocations
					st.assume("(>= " + v.T + " 0)")
				}
				if v.K == KSlice {
					st.assume("(>= " + v.Ref + " 0)")
				}
				st.vars[obj] = v
				if !assigned.vars[obj] {
					e.entryEnv[n.Name] = v
				}
			}
		}
	}
	bind(fi.Decl.Recv)
	bind(fi.Decl.Type.Params)
	if fi.Sig != nil {
		// closure unit: the variables it captures are arbitrary, but the same
		// throughout the body and the contract
		ast.Inspect(fi.Decl.Body, func(n ast.Node) bool {
			id, ok := n.(*ast.Ident)
			if !ok {
				return true
			}
			v, ok := e.info.Uses[id].(*types.Var)
			if !ok || isPkgLevel(v) || v.IsField() {
				return true
			}
			if v.Pos() >= fi.Decl.Type.Pos() && v.Pos() <= fi.Decl.Body.End() {
				return true
			}
			if _, have := st.vars[v]; !have {
				st.vars[v] = e.symFor(v.Name(), v.Type(), st)
			}
			return true
		})
	}
	var rvars []types.Object
	var resNames []string
	if fi.Decl.Type.Results != nil {
		k := 0
		for _, f := range fi.Decl.Type.Results.List {
			if len(f.Names) == 0 {
				resNames = append(resNames, fmt.Sprintf("r%d", k))
				k++
			}
			for _, n := range f.Names {
				resNames = append(resNames, n.Name)
				k++
				if obj := e.info.Defs[n]; obj != nil {
					st.vars[obj] = e.zeroVal(obj.Type(), st)
					rvars = append(rvars, obj)
				}
			}
		}
	}
	if len(con.Results) > 0 {
		resNames = con.Results
	}
	e.retVars = rvars
	if fi.Sig != nil {
		e.curRes = resTypesOf(fi.Sig.Results())
	} else if sig, ok := fi.Obj.Type().(*types.Signature); ok {
		e.curRes = resTypesOf(sig.Results())
	}
	// ghost state
	for _, g := range u.cs.Ghosts {
		st.ghost[g.Name] = e.ghostInit(g, st, true)
	}
	for _, g := range con.Ghosts {
		st.ghost[g.Name] = e.ghostInit(g, st, false)
	}
	// preconditions
	rc := &ctx{st: st, env: e.entryEnv, spec: true, noOblig: true, pkg: e.pkg, scopePos: fi.Decl.Body.Lbrace + 1, bound: map[string]Val{}}
	for _, r := range con.Requires {
		st.assume(e.specBool(r.Expr, rc))
	}
	for _, f := range con.Facts {
		st.assume(e.specBool(f.Expr, rc))
		e.noteAssumed("fact " + f.Label + " (backed by the ground obligation of that name): " + f.Src)
	}
	e.entry = st.clone()
	// vacuity: the preconditions must be satisfiable
	e.obls = append(e.obls, &Obl{Name: name + "/cover#requires", Fn: name, Kind: "cover", PC: append([]string(nil), st.pc...), Goal: "false", Expect: "sat", BV: e.bv})
	outs := e.block(fi.Decl.Body.List, st)
	outs = e.finishReturns(outs, rvars)
	nret := 0
	var firstRet *State
	for _, o := range outs {
		if o.st.dead || (o.kind != Return && o.kind != Normal) {
			continue
		}
		nret++
		if firstRet == nil {
			firstRet = o.st
		}
		env := map[string]Val{}
		for k, v := range e.entryEnv {
			env[k] = v
		}
		for i, v := range o.rets {
			if i < len(resNames) {
				env[resNames[i]] = v
			}
		}
		if len(o.rets) == 1 {
			env["result"] = o.rets[0]
		}
		ec := &ctx{st: o.st, old: e.entry, env: env, spec: true, noOblig: true, pkg: e.pkg, scopePos: fi.Decl.Body.Rbrace, bound: map[string]Val{}}
		for k, en := range con.Ensures {
			g := e.specBool(en.Expr, ec)
			e.oblig("ensures", e.clauseName("ensures", k, en), o.st, g, fi.Decl.Body.Rbrace)
			if len(en.Props) > 0 && len(e.obls) > 0 {
				last := e.obls[len(e.obls)-1]
				if strings.HasSuffix(last.Name, e.clauseName("ensures", k, en)) {
					last.Note = "props:" + strings.Join(en.Props, ",")
				}
			}
		}
	}
	if firstRet != nil {
		// some return path must be feasible: the disjunction of (up to eight) return paths
		var alts []string
		for _, o := range outs {
			if o.st.dead || (o.kind != Return && o.kind != Normal) || len(alts) >= 8 {
				continue
			}
			if len(o.st.pc) == 0 {
				alts = append(alts, "true")
				continue
			}
			alts = append(alts, "(and "+strings.Join(o.st.pc, " ")+")")
		}
		pc := []string{"(or " + strings.Join(alts, " ") + ")"}
		if len(alts) == 1 {
			pc = append([]string(nil), firstRet.pc...)
		}
		e.obls = append(e.obls, &Obl{Name: name + "/cover#return", Fn: name, Kind: "cover", PC: pc, Goal: "false", Expect: "sat", BV: e.bv})
	} else if len(con.Ensures) > 0 {
		rep.Error = "no return path reached: postconditions hold vacuously"
		return nil, rep
	}
	rep.Paths = nret
	if err := e.detObligations(con, outs, name); err != nil {
		rep.Error = err.Error()
		return nil, rep
	}
	// finalise
	decls := append([]string(nil), e.decls...)
	for _, o := range e.obls {
		o.Decls = decls
		o.Lits = e.litList
		o.Spec = e.specFiles
		for k := range con.Skip {
			if strings.HasPrefix(o.Kind, k) {
				o.Kind = "skipped"
			}
		}
		for _, uc := range con.Unclaimed {
			if strings.Contains(o.Name, uc[0]) && o.Kind != "cover" {
				o.Kind = "skipped"
				rep.Unclaimed = append(rep.Unclaimed, o.Name+": "+uc[1])
			}
		}
	}
	var kept []*Obl
	for _, o := range e.obls {
		if o.Kind != "skipped" {
			kept = append(kept, o)
		}
	}
	rep.Abstracted = sortStrings(e.abstracted)
	rep.Inlined = sortStrings(e.inlined)
	rep.Assumed = sortStrings(e.usedAssume)
	kept = dedupe(kept)
	rep.Obls = len(kept)
	return kept, rep
}

// lemmaObl builds the obligation of a raw SMT lemma.
func (u *Universe) lemmaObl(l *Lemma) *Obl {
	var decls, pc []string
	for _, s := range l.SMT {
		decls = append(decls, s)
	}
	return &Obl{Name: "lemma:" + l.Name, Fn: "lemma:" + l.Name, Kind: "lemma", Decls: decls, PC: pc, Goal: l.Goal, Spec: l.Spec, Expect: "unsat", BV: l.BV}
}

func (u *Universe) contractsFor(prop string) []*FuncInfo {
	var out []*FuncInfo
	for _, fi := range u.funcs {
		if fi.Con == nil {
			continue
		}
		if prop == "" || hasProp(fi.Con.Props, prop) {
			out = append(out, fi)
		}
	}
	sort.Slice(out, func(i, j int) bool { return out[i].Pkg.PkgPath+out[i].Key < out[j].Pkg.PkgPath+out[j].Key })
	return out
}

func hasProp(ps []string, p string) bool {
	for _, x := range ps {
		if x == p {
			return true
		}
	}
	return false
}
