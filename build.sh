#!/bin/sh
# Builds /verif/bin/govc offline from /verif/tool.
set -e
export PATH=/opt/veriftools/go1.26.8/bin:$PATH GOTOOLCHAIN=local GOFLAGS=-mod=mod GOPROXY=off GOSUMDB=off
cd "$(dirname "$0")/tool"
mkdir -p ../bin
go build -o ../bin/govc .
