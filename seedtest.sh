#!/bin/sh
# usage: seedtest.sh <seed dir name> <property id> [more property ids]
# extracts the agent's change from its scratch worktree (first time), applies it to /repo,
# runs the checks and undoes it straight afterwards.
set -u
name="$1"; shift
d=/verif/seeded/$name
mkdir -p $d
if [ ! -s $d/patch.diff ] && [ -d /tmp/seed/$name/wt ]; then
  git -C /tmp/seed/$name/wt diff -- . ':!*zz_verif_contracts.go' > $d/patch.diff
  cp /tmp/seed/$name/demo.sh $d/demonstration.sh 2>/dev/null
  cp /tmp/seed/$name/README.md $d/demonstration.md 2>/dev/null
fi
git -C /repo apply $d/patch.diff || { echo "patch does not apply"; exit 2; }
for p in "$@"; do
  GOVC_NO_EVIDENCE=1 /verif/check $p > $d/check-$p.out 2>&1; echo "check $p exit $?" | tee -a $d/check-$p.out
  grep -E "^VIOLATION|^KNOWN" $d/check-$p.out | cut -c1-260
done
git -C /repo checkout -- .
git -C /repo status --short | head -3
