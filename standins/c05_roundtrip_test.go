package literals_test

// Bounded stand-in for the part of C05 that the deductive checks cannot reach:
// the loops and closures that the five obfuscators *emit*. It runs the real
// literals.Obfuscate on generated programs, builds them with the Go toolchain
// and compares what they print with the original literal values. It is bounded
// (a fixed number of seeds, a fixed set of literal lengths and forms) and is
// reported under "bounded_standins" only; it is never counted as an obligation.
//
// Injected with `go test -overlay`; it is not part of the repository.

import (
	"bytes"
	"fmt"
	"go/ast"
	"go/parser"
	"go/printer"
	"go/token"
	"go/types"
	mathrand "math/rand"
	"os"
	"os/exec"
	"path/filepath"
	"strconv"
	"strings"
	"testing"

	"mvdan.cc/garble/internal/literals"
)

func TestVerifStandinRoundTrip(t *testing.T) {
	seeds, _ := strconv.Atoi(os.Getenv("VERIF_STANDIN_SEEDS"))
	if seeds <= 0 {
		t.Skip("VERIF_STANDIN_SEEDS not set")
	}
	lengths := []int{7, 8, 9, 15, 16, 17, 31, 32, 33, 64, 127, 255, 256, 257, 1023, 2047, 2048, 2049}
	tdir := t.TempDir()
	literalsRun, obfuscatedForms := 0, 0
	for seed := 1; seed <= seeds; seed++ {
		gen := mathrand.New(mathrand.NewSource(int64(1000 + seed)))
		var src, want bytes.Buffer
		src.WriteString("package main\n\n")
		var mainBody bytes.Buffer
		n := 0
		for _, l := range lengths {
			data := make([]byte, l)
			for i := range data {
				b := byte(1 + gen.Intn(255))
				if b == '\n' {
					b = 'n'
				}
				data[i] = b
			}
			// string, constant-folded string, byte slice, pointer to byte slice, byte array (small sizes)
			fmt.Fprintf(&src, "var s%d string = %#v\n", n, string(data))
			fmt.Fprintf(&src, "var f%d string = \"<\" + %#v + \">\"\n", n, string(data))
			fmt.Fprintf(&src, "var b%d []byte = %#v\n", n, data)
			fmt.Fprintf(&src, "var p%d *[]byte = &%#v\n", n, data)
			fmt.Fprintf(&mainBody, "\tprintln(s%[1]d)\n\tprintln(f%[1]d)\n\tprintln(string(b%[1]d))\n\tprintln(string(*p%[1]d))\n", n)
			fmt.Fprintf(&want, "%[1]s\n<%[1]s>\n%[1]s\n%[1]s\n", data)
			literalsRun += 4
			if l <= 257 {
				fmt.Fprintf(&src, "var a%d = [%d]byte{", n, l)
				for i, b := range data {
					if i > 0 {
						src.WriteString(", ")
					}
					fmt.Fprintf(&src, "%d", b)
				}
				src.WriteString("}\n")
				fmt.Fprintf(&mainBody, "\tprintln(string(a%d[:]))\n", n)
				fmt.Fprintf(&want, "%s\n", data)
				literalsRun++
				// pointer to a fully listed array; arrays that list fewer elements than they hold
				// (zero tail), as a value and behind a pointer
				elems := strings.TrimSuffix(strings.TrimPrefix(fmt.Sprintf("%#v", data), "[]byte{"), "}")
				fmt.Fprintf(&src, "var q%d = &[%d]byte{%s}\n", n, l, elems)
				fmt.Fprintf(&src, "var z%d = [%d]byte{%s}\n", n, l+5, elems)
				fmt.Fprintf(&src, "var y%d = &[%d]byte{%s}\n", n, l+3, elems)
				fmt.Fprintf(&mainBody, "\tprintln(string(q%[1]d[:]))\n\tprintln(len(z%[1]d), string(z%[1]d[:%[2]d]), z%[1]d[%[2]d], z%[1]d[%[2]d+4])\n\tprintln(len(y%[1]d), string(y%[1]d[:%[2]d]), y%[1]d[%[2]d], y%[1]d[%[2]d+2])\n", n, l)
				fmt.Fprintf(&want, "%s\n%d %s 0 0\n%d %s 0 0\n", data, l+5, data, l+3, data)
				literalsRun += 3
			}
			// a literal used inside a function, not only at package level
			fmt.Fprintf(&mainBody, "\tprintln(%#v)\n", string(data))
			fmt.Fprintf(&want, "%s\n", data)
			literalsRun++
			n++
		}
		fmt.Fprintf(&src, "\nfunc main() {\n%s}\n", mainBody.String())

		fset := token.NewFileSet()
		file, err := parser.ParseFile(fset, "", src.Bytes(), parser.SkipObjectResolution)
		if err != nil {
			t.Fatalf("seed %d: generated program does not parse: %v", seed, err)
		}
		info := types.Info{
			Types: make(map[ast.Expr]types.TypeAndValue),
			Defs:  make(map[*ast.Ident]types.Object),
			Uses:  make(map[*ast.Ident]types.Object),
		}
		var conf types.Config
		if _, err := conf.Check("p", fset, []*ast.File{file}, &info); err != nil {
			t.Fatalf("seed %d: generated program does not type-check: %v", seed, err)
		}
		rnd := mathrand.New(mathrand.NewSource(int64(seed)))
		file = literals.Obfuscate(rnd, file, &info, nil, func(r *mathrand.Rand, baseName string) string {
			return fmt.Sprintf("%s%d", baseName, r.Uint64())
		})
		var out bytes.Buffer
		if err := printer.Fprint(&out, fset, file); err != nil {
			t.Fatalf("seed %d: %v", seed, err)
		}
		obfuscatedForms += strings.Count(out.String(), "func()")
		srcPath := filepath.Join(tdir, fmt.Sprintf("prog_%d.go", seed))
		if err := os.WriteFile(srcPath, out.Bytes(), 0o644); err != nil {
			t.Fatal(err)
		}
		binPath := strings.TrimSuffix(srcPath, ".go")
		if o, err := exec.Command("go", "build", "-trimpath", "-ldflags=-w -s", "-o", binPath, srcPath).CombinedOutput(); err != nil {
			t.Fatalf("STANDIN-FAIL seed=%d: the obfuscated program does not build: %v\n%s\n--- obfuscated source ---\n%s", seed, err, o, firstLines(out.String(), 80))
		}
		got, err := exec.Command(binPath).CombinedOutput()
		if err != nil {
			t.Fatalf("STANDIN-FAIL seed=%d: the obfuscated program fails at run time: %v\n%s", seed, err, firstLines(string(got), 40))
		}
		if !bytes.Equal(got, want.Bytes()) {
			gl, wl := strings.Split(string(got), "\n"), strings.Split(want.String(), "\n")
			for i := range wl {
				if i >= len(gl) || gl[i] != wl[i] {
					g := "<missing>"
					if i < len(gl) {
						g = gl[i]
					}
					t.Fatalf("STANDIN-FAIL seed=%d: output line %d differs (literal of %d bytes)\n want %q\n got  %q", seed, i, len(wl[i]), clip(wl[i]), clip(g))
				}
			}
			t.Fatalf("STANDIN-FAIL seed=%d: output differs in length", seed)
		}
		os.Remove(binPath)
	}
	fmt.Printf("STANDIN-OK seeds=%d literals=%d obfuscated_closures=%d lengths=%v\n", seeds, literalsRun, obfuscatedForms, lengths)
}

func firstLines(s string, n int) string {
	l := strings.Split(s, "\n")
	if len(l) > n {
		l = l[:n]
	}
	return strings.Join(l, "\n")
}

func clip(s string) string {
	if len(s) > 80 {
		return s[:80] + "…"
	}
	return s
}
