#!/usr/bin/env python3
"""Regenerates /verif/MANIFEST.json from the table below."""
import json, subprocess
props = [json.loads(l) for l in open('/verif/properties.jsonl')]
TECH = "contract-based deductive verification: VCs generated from the typed Go AST of /repo (govc), discharged by z3/cvc5; frame obligations by the goframe effect pass"
claims = {
 "C01": ("contracts on the decision functions every build goes through: obfuscatedObjectName against its decision table (what keeps its name: universe objects, unselected packages, exported methods, main/init/TestMain, test functions, non var/type/func objects; fields hashed with their struct; everything else with the object's own package), obfuscatedImportPath / obfuscatedPackageName, listPackage(p, own path) == p, the reflection pre-patch keeps the original source as a prefix",
         "necessary conditions only: that the obfuscated program behaves like the original for every Go program, flag set and input is a statement about the Go toolchain and about transformGoFile's use of these decisions at every identifier, which is not under contract; assembly, linkname and -ldflags=-X handling are not covered"),
 "C02": ("contracts on what garble itself puts into the build: the same naming decision table, the import-path decision, go invoked with -trimpath -buildvcs=false at both call sites (ground obligation on garbleBuildFlags), flagSetValue (used to blank -buildid), obfuscated sources written only under the hashed temp dir, call positions hashed under base name and offset",
         "necessary conditions only: the bytes of the binary are produced by the Go compiler and the patched linker; nothing is proved about them, about comment stripping in printFile, or about the linker flags assembled in transformLink"),
 "C03": ("frame obligation 'deterministic' over every function reachable from the obfuscation pipeline (no global randomness, clock or map iteration order can reach the output) plus SMT determinism (self-composition) of the name hash",
         "necessary conditions: the Go toolchain's own determinism, process scheduling and the seeding in transformCompile are outside; ten map-order sites are listed known findings; three order assumptions are listed in trusted_base"),
 "C04": ("contracts on the reverse pipeline: reverseContent streams every line read, in order, through the replacer and writes exactly the replaced lines (ghost stream history, loop invariant); the exit status is success iff some line changed; the trees reverse inspects are the listed files in listed order with the source on disk as a prefix (parseFiles / transformerForListedPackage / reflectMainPrePatch); build and reverse both hash call positions under fmt.Sprintf(\"%s:%d\", base name, offset) with the package being processed",
         "the agreement of offsets rests on go/printer + go/scanner emitting identifiers in Preorder order (position.go's own assumption), which is not proved; that strings.Replacer does the longest-first replacement the pair order intends is assumed; one known finding (cgo packages: reverse keys use build-cache paths)"),
 "C05": ("contracts on the encoder/decoder building blocks: evalOperator against a bit-vector spec, the reversed operator emitted with the same operands, the lemma that the reversed operator undoes the encoder for all bytes, index type wide enough for every position, even swap count covering the data, random index/operator ranges, obfuscator selection window",
         "necessary conditions only: the round trip of each of the five obfuscators through the emitted loops and closures needs a semantics of emitted Go statements, which is not built; the check is accompanied by a labelled bounded stand-in (standins/c05_roundtrip_test.go: the real literals.Obfuscate on generated programs for a fixed number of seeds and literal lengths, built and run, output compared) reported under coverage.bounded_standins and never counted among the obligations"),
 "C06": ("functional contracts of the cache key ingredients: addGarbleToHash / appendFlags hash every build-affecting garble input (spec from the statement), cache IDs use distinct suffixes, linker stamp written == stamp checked",
         "cmd/go's own action IDs and what it does with them are assumed; the -ldflags/-literals staleness (DESIGN 12.1) is outside the functions under contract so far"),
 "C07": ("miss-on-error contracts for every garble cache reader (loadPkgCache, computePkgCache, loadGoAsmNames, debugdir readers) and the linker reuse condition, via ghost typestate hooks on the real I/O call sites",
         "go-internal cache.GetFile is assumed to fail for missing/empty/truncated entries; the truncated-linker defect is a listed known finding (no safe repair in this sandbox)"),
 "C08": ("contracts on what the reflection analysis records and under which name: the obfuscated key is computed as the build computes it (fields with hashWithStruct of their struct, foreign objects with their declaring package), the original name is stored under that key, the post-patch searches for the name the main package was printed with; frame obligations on the two recording switches: every go/types constructor (map keys, type arguments, signatures, tuples, struct fields) and every SSA value kind reaches the recorder",
         "necessary conditions only: the SSA dataflow that decides which values reach a reflection API (checkFunction, relatedParam, the per-package cache merge) is trusted, its order assumption is listed; the injected run-time replacer (a copy of strings.genericReplacer) is not verified"),
 "C09": ("decision contracts for 'is rewritten': the post-order visitor replaces every constant string of type string in the 8..2048 window, handleCompositeLiteral rewrites every byte slice/array literal (Go type identity) of constant elements in the window, the pre-order visitor prunes only const declarations, nosplit functions and -X variables",
         "astutil.Apply visiting every expression, the emitted encoder not reproducing the plaintext by chance, and the seed not reaching the binary are outside"),
 "C10": ("ground obligations over the real strip rules of stripRuntime (read from its switch) against the type-checked runtime sources of the installed GOROOT: every function that writes to stderr without the print builtins is emptied or only reachable through emptied functions; the statement's catalogue of crash printers is emptied; required-strip table matches; SMT contract of the print/println redirection closure; -tiny forwarded to the patched linker",
         "necessary conditions only: that these are all the ways the runtime reports a crash, exit statuses and recover semantics are runtime semantics outside any contract here; indirect calls through function values in the runtime are not followed"),
 "C11": ("contracts on the control-flow helpers: generateKeys (count, non-zero, not blacklisted, pairwise distinct: full functional proof), always-false guard of trash blocks, positive arguments of every random choice and bounds in block splitting / junk / trash insertion, and a must-read frame over the SSA to AST converter (every semantic field of the SSA function and of each instruction kind is read)",
         "necessary conditions only: that the emitted dispatcher, phi handling and instruction translation preserve behaviour is outside (no semantics of emitted statements); the dropped recover block is a listed known finding; one obligation about successor arrays is listed as unproved_not_claimed"),
 "C12": ("functional contracts of salt selection (hash input pinned as a term), determinism by self-composition: seeded names depend only on seed, import path and name; unseeded on the garble action ID; field names on struct shape and garble inputs; appendFlags/addGarbleToHash/seedFlag.Set",
         "SHA-256 and base64 are assumed contracts; 'differs under another seed' needs injectivity of SHA-256 and is not claimed"),
 "C13": ("decision-table contract on obfuscatedObjectName (the single naming function): which objects keep their names, fields hashed with their struct, everything else hashed with the package go list reports for the object's own import path; garble map calls it with the transformer built for the package it lists and reports that package's obfuscatedImportPath; garble reverse covers every declaration kind whose names map lists (frame obligation on its type switch)",
         "that transformGoFile (the build) consults the same function for every identifier is checked only as a call-graph fact, not per identifier; objectpath keys are x/tools' and assumed"),
 "C14": ("decision contract at the point where ToObfuscate is recorded (spec written from the statement), no-match error, guard dominance of import path / package name functions",
         "only the decision and the naming functions; behaviour of the mixed program is outside; hashed source dir for plain packages is a listed known finding"),
 "C15": ("frame obligation on the struct case of the type hasher (may call only NumFields/Field/Anonymous/Name/hashString) and determinism of hashWithStruct in (struct hash, field name, garble inputs)",
         "that identical structs have equal (n, names, embedded) is Go's definition; traversal completeness of computeFieldToStruct is not proved"),
 "C16": ("full functional contract of hashWithCustomSalt on the real code: length 6..12, identifier alphabet, first character, export preservation, purity (self-composition), unreachable panics, bounds",
         "base64/SHA-256/go/token assumed contracts listed in trusted_base; collision freedom is a probability statement and not claimed"),
 "C17": ("per-process protocol: ghost lock typestate over PatchLinker and mainErr (every linker file access under the lock, released exactly once, linker runs while held), exclusive creation and owned-path obligations for every file garble writes",
         "interleavings themselves are not modelled: mutual exclusion is assumed from lockedfile, atomicity from go-internal cache"),
 "C18": ("ordering obligations for what a crash can leave behind: version stamp only after a successful linker build, fresh MkdirTemp per invocation, stamp content == checked content",
         "crash points inside cmd/go, the linker build's own output and the OS are outside"),
 "C19": ("owned-path obligations at every os.RemoveAll/MkdirAll/WriteFile/OpenFile call site in the functions under contract (ghost ownership map driven by hooks on MkdirTemp, ReadDir, Lstat, Join, Setenv/Getenv), debug-dir decision, inherited GARBLE_SHARED",
         "cmd/go's own writes and the completeness of the debug tree are outside; fs-write sites in functions not yet under contract are listed in the evidence"),
 "C20": ("functional proof of splitFlagsFromArgs against a recursive spec of the go command's splitting, parse-sync invariant of filterForwardBuildFlags, flagSetValue, splitFlagsFromFiles, hasHelpFlag; ground obligations tying booleanFlags / forwardBuildFlags / rxGarbleFlag to cmd/go's sources in GOROOT",
         "flagValue/flagValues (range-over-func) are not under contract; -args and '--' are outside the statement"),
}
checks, na = [], []
for p in props:
    pid = p['id']
    if pid in claims:
        text, note = claims[pid]
        checks.append({"property_id": pid, "quick_cmd": f"./check {pid} --tier quick", "thorough_cmd": f"./check {pid} --tier thorough",
          "evidence_file": f"/verif/evidence/{pid}.json", "replay_cmd_template": f"./check {pid} --replay {{path}}", "engine": "govc",
          "level_claimed": {"category": "proof", "text": text, "design_ref": "DESIGN.md sections 1 and 10"},
          "level_note": note + "; termination not proved; unknown calls are havocked; assumed contracts are listed per run in trusted_base",
          "technique": TECH})
    else:
        na.append({"property_id": pid, "reason": "deductive fragment designed (DESIGN section 11) but not built yet; the remainder of the statement needs the semantics of the Go toolchain, which no contract here can express"})
commits = subprocess.run(["git","-C","/repo","log","--format=%H %s"],capture_output=True,text=True).stdout.splitlines()
hook_commits = [c.split()[0] for c in commits if ' verif:' in c or 'verif contracts' in c]
m = {"version": 1, "setup_cmd": "./build.sh",
 "hooks": {"guard": "verif", "enable": "govc loads /repo with -tags=verif; the only guarded files are comment-only contract files zz_verif_contracts.go",
           "baseline_off_cmd": "cd /repo && go test -mod=mod -vet=off -count=1 -timeout 25m ./...",
           "source_commits": hook_commits, "add_only": True},
 "engines": [{"name": "govc", "path": "/verif/tool", "serves_properties": sorted(claims), "kind_free_text": "contract-based deductive verifier for Go written for this task: forward symbolic execution over the typed AST (go/packages), contracts in //@ comment files, SMT obligations raced on z3-new/cvc5/z3, goframe effect pass, ground table checks"}],
 "checks": checks, "not_applicable": na,
 "notes": "DESIGN.md explains the approach; known_findings.json lists genuine defects that are recorded rather than repaired; selftest/ holds must-fail and must-pass mutants (bin/govc selftest)."}
json.dump(m, open('/verif/MANIFEST.json','w'), indent=1)
print("claimed", sorted(claims), "n/a", [x['property_id'] for x in na])
