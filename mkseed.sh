#!/bin/sh
# usage: mkseed.sh <seed name, e.g. C05b> <property id>
# Prepares a scratch worktree of /repo for a seeding sub-agent under /tmp/seed/<name>/wt with the
# guarded contract files removed (so nothing from /verif is visible), and writes the property record
# to /tmp/seed/<name>/property.json.
set -eu
name="$1"; prop="$2"
base=/tmp/seed/$name
rm -rf $base; mkdir -p $base
git -C /repo worktree prune
git -C /repo worktree add --detach $base/wt HEAD >/dev/null 2>&1
cd $base/wt
git rm -q $(git ls-files | grep zz_verif_contracts.go)
git -c user.name=scratch -c user.email=s@x commit -qm "scratch base"
python3 - "$prop" > $base/property.json <<'P'
import json,sys
for l in open('/verif/properties.jsonl'):
    p=json.loads(l)
    if p['id']==sys.argv[1]: print(json.dumps(p,indent=1))
P
echo $base
