#!/bin/bash
# usage: verifyseed.sh <seed name>
# Confirms a seeded change independently: builds garble from the agent's changed worktree and from
# /repo's HEAD in a scratch dir, runs the agent's demo.sh with each, expects exit 1 / exit 0.
set -u
name=$1
base=/tmp/seed/$name
export PATH=/opt/veriftools/go1.26.8/bin:$PATH GOTOOLCHAIN=local GOFLAGS=-mod=mod GOPROXY=off GOSUMDB=off
out=/verif/seeded/$name/verify.out
mkdir -p /verif/seeded/$name
{
  echo "== go build (changed)"; (cd $base/wt && go build -o $base/garble-changed .) || exit 2
  rm -rf $base/orig; git -C /repo worktree add --detach $base/orig HEAD >/dev/null 2>&1
  echo "== go build (unchanged HEAD of /repo)"; (cd $base/orig && go build -o $base/garble-orig .) || exit 2
  git -C /repo worktree remove --force $base/orig
  echo "== demo with changed garble"; (cd $base && bash ./demo.sh $base/garble-changed) 2>&1 | tail -15; echo "exit-changed=${PIPESTATUS[0]}"
  echo "== demo with unchanged garble"; (cd $base && bash ./demo.sh $base/garble-orig) 2>&1 | tail -8; echo "exit-orig=${PIPESTATUS[0]}"
  rm -rf $base/scratch $base/garble-changed $base/garble-orig
} > $out 2>&1
grep -E "^exit-" $out
